(* C06: the run-time well-formedness monitor is the decision procedure of FeeWF *)
From Coq Require Import ZArith Bool List Lia ZifyBool PeanoNat.
Import ListNotations.
From Sunrise Require Import Base.Outcome Base.Dec Amm.Math Amm.Pool Amm.Fees.
Local Open Scope Z_scope.

Lemma len4b_spec v : len4b v = true <-> len4 v.
Proof. unfold len4b, len4. apply Nat.eqb_eq. Qed.
Lemma vnonnegb_spec v : vnonnegb v = true <-> vnonneg v.
Proof.
  unfold vnonnegb, vnonneg. rewrite forallb_forall, Forall_forall. split; intros H x Hx; specialize (H x Hx); lia.
Qed.

Theorem fee_wf_b_spec s : fee_wf_b s = true <-> FeeWF s.
Proof.
  unfold fee_wf_b. rewrite !andb_true_iff, !len4b_spec, !forallb_forall. split.
  - intros (((((H1 & H2) & H3) & H4) & H5) & H6). constructor; try assumption.
    + apply Forall_forall. intros t Ht. unfold tick_wf. apply len4b_spec. apply H2. exact Ht.
    + apply Forall_forall. intros a Ha. specialize (H3 a Ha). rewrite !andb_true_iff, !len4b_spec, vnonnegb_spec in H3.
      unfold ap_wf. destruct H3 as (((A & B) & C) & D). repeat split; try assumption. lia.
  - intros [H1 H2 H3 H4 H5 H6]. repeat split; try assumption.
    + intros t Ht. apply len4b_spec. rewrite Forall_forall in H2. apply H2. exact Ht.
    + intros a Ha. rewrite Forall_forall in H3. destruct (H3 a Ha) as (A & B & C & D).
      rewrite !andb_true_iff, !len4b_spec, vnonnegb_spec. repeat split; try assumption. lia.
Qed.
