(* Correspondence + monitors for C10 (x/shareclass). Evaluated by generated cases files:
   every case carries the projection of the application state before and after one operation
   executed on the real application, the oracle answers of that step, and the observed result. *)
From Coq Require Import ZArith QArith List Bool.
Import ListNotations.
From Sunrise Require Export Base.Outcome Base.Check Stake.ApdDec Stake.ShareClass.
Local Open Scope Z_scope.

(* ---------- dumps ---------- *)
Record dcell := mkD {
  k_T : Z; k_sh : list Z; k_modsh : Z; k_B : option Z; k_sd : bool; k_ent : Z;
  k_S : list Z;                    (* per denom *)
  k_M : list (Z * Z);              (* per denom: coefficient, exponent *)
  k_chk : list (Z * Z * option (Z * Z))
                                   (* sparse: user, denom, checkpoint; None = equal to the current
                                      multiplier of the denom; absent = 0 *);
  k_alias : Z                      (* supply of share denoms built from other spellings of the same
                                      validator address (bech32 also decodes the all upper-case
                                      string): a second share class over the same delegation *)
}.
(* emitted for a cell of the post-state that is identical to the pre-state's *)
Definition dsame : dcell := mkD (-1) [] 0 None false 0 [] [] [] 0.
(* emitted (in both states) for a cell the operation does not address and that the harness saw
   unchanged: not shown, not compared *)
Definition dhid : dcell := mkD (-2) [] 0 None false 0 [] [] [] 0.
(* user balances and times are emitted relative to these bases (shorter literals) *)
Definition UB0 : Z := Eval vm_compute in 10 ^ 39.
Definition ubase (d : Z) : Z := if d =? 1 then 0 else UB0.
Definition T0 : Z := Eval vm_compute in 1700000000 * 1000000000.
Record dstate := mkDS {
  d_cells : list dcell;
  d_ub : list (list Z);            (* per user, per denom: ubase denom - balance *)
  d_mb : list Z;
  d_queue : list (Z * Z * Z * Z);  (* id, recipient, completion (ns) - T0, amount; in index order *)
  d_next : Z
}.

(* monomorphic tuple builders: the generated files elaborate faster with them *)
Definition zp (c e : Z) : Z * Z := (c, e).
Definition q4 (i r t a : Z) : Z * Z * Z * Z := (i, r, t, a).
Definition ck (u d : Z) (x : option (Z * Z)) : Z * Z * option (Z * Z) := (u, d, x).

Definition nz (l : list Z) (i : Z) : Z := if i <? 0 then 0 else nth (Z.to_nat i) l 0.
Definition nq (l : list (Z * Z)) (i : Z) : Q :=
  if i <? 0 then 0%Q else let '(c, e) := nth (Z.to_nat i) l (0, 0) in of_ce c e.
Definition nl {A} (l : list (list A)) (i : Z) : list A :=
  if i <? 0 then [] else nth (Z.to_nat i) l [].

(* decoded once per dump (vm_compute is call-by-value: the closures below capture values) *)
Definition qlist (l : list (Z * Z)) : list Q := map (fun '(c, e) => of_ce c e) l.
Definition nqq (l : list Q) (i : Z) : Q := if i <? 0 then 0%Q else nth (Z.to_nat i) l 0%Q.
Fixpoint chk_lookup (l : list (Z * Z * Q)) (u d : Z) : Q :=
  match l with
  | [] => 0%Q
  | (u', d', x) :: tl => if (u' =? u) && (d' =? d) then x else chk_lookup tl u d
  end.
Definition chk_list (k : dcell) : list (Z * Z * Q) :=
  let ms := qlist (k_M k) in
  map (fun '(u, d, x) => (u, d, match x with Some (c, e) => of_ce c e | None => nqq ms d end)) (k_chk k).
Definition chk_of (k : dcell) : Z -> Z -> Q := let l := chk_list k in chk_lookup l.
Definition cell_of (k : dcell) : cell :=
  if k_T k <? 0 then cell0 else
  let ms := qlist (k_M k) in
  let ch := chk_list k in
  mkCell (k_T k) (nz (k_sh k)) (k_modsh k) (k_B k) (k_sd k) (k_ent k)
         (nz (k_S k)) (nqq ms) (chk_lookup ch).
Definition dcell0 : dcell := mkD 0 [] 0 None false 0 [] [] [] 0.
Definition state_of (d : dstate) : state :=
  let cs := map cell_of (d_cells d) in
  mkState (fun v => if v <? 0 then cell0 else nth (Z.to_nat v) cs cell0)
          (fun u dn => if (u <? 0) || (Z.of_nat (length (d_ub d)) <=? u) then 0
                       else ubase dn - nz (nl (d_ub d) u) dn) (nz (d_mb d))
          (map (fun '(i, r, t, a) => mkUnb i r (T0 + t) a) (d_queue d)) (d_next d).

Fixpoint range_from (i : Z) (n : nat) : list Z :=
  match n with O => [] | S m => i :: range_from (i + 1) m end.
Definition range (n : nat) : list Z := range_from 0 n.

Definition opt_eqb (a b : option Z) : bool :=
  match a, b with Some x, Some y => x =? y | None, None => true | _, _ => false end.
Definition qs_eqb (f : Z -> Q) (l : list (Z * Z)) : bool :=
  forallb (fun i => Qeq_bool (f i) (nq l i)) (range (length l)).
Definition zs_eqb (f : Z -> Z) (l : list Z) : bool :=
  forallb (fun i => f i =? nz l i) (range (length l)).

(* model cell = observed cell; the entries counter is an oracle and not predicted *)
Definition cell_eqb (c : cell) (k : dcell) : bool :=
  (k_T k =? -2) ||
  (k_alias k =? 0) &&      (* the model has one share class per validator *)
  (cT c =? k_T k) && zs_eqb (csh c) (k_sh k) && (cmodsh c =? k_modsh k) &&
  opt_eqb (cB c) (k_B k) && Bool.eqb (csd c) (k_sd k) &&
  zs_eqb (cS c) (k_S k) && qs_eqb (cM c) (k_M k) &&
  forallb (fun u => forallb (fun d => Qeq_bool (cchk c u d) (chk_of k u d)) (range (length (k_M k))))
          (range (length (k_sh k))).
Definition unb_eqb (e : unb) (t : Z * Z * Z * Z) : bool :=
  let '(i, r, tm, a) := t in (u_id e =? i) && (u_rcp e =? r) && (u_time e =? T0 + tm) && (u_amt e =? a).
Fixpoint list_eqb {A B} (f : A -> B -> bool) (a : list A) (b : list B) : bool :=
  match a, b with
  | [], [] => true
  | x :: a', y :: b' => f x y && list_eqb f a' b'
  | _, _ => false
  end.
Definition state_eqb (s : state) (d : dstate) : bool :=
  forallb (fun v => cell_eqb (cells s v) (nth (Z.to_nat v) (d_cells d) dcell0)) (range (length (d_cells d))) &&
  forallb (fun u => forallb (fun dn => ubal s u dn =? ubase dn - nz (nl (d_ub d) u) dn) (range (length (nl (d_ub d) u))))
          (range (length (d_ub d))) &&
  zs_eqb (mbal s) (d_mb d) &&
  list_eqb unb_eqb (queue s) (d_queue d) && (next_id s =? d_next d).

(* ---------- cases ---------- *)
(* denoms: 0 = urise (fee), 1 = uvrise (bond), 2 = uusdc, 3 = uatom; sdk.Coins order *)
Definition DENOMS : list Z := [3; 0; 2; 1].

Record c10_case := mkCase {
  c_op : op;
  c_ct : Z; c_ret : Z; c_max : Z; c_leak : list Z; c_rw : list (list Z); c_released : Z;   (* oracle *)
  c_pre : dstate;
  c_res : Z;                       (* 0 = ok, error class, 99 = panic *)
  c_post : option dstate;          (* None = identical to c_pre *)
  c_fresh : bool;                  (* harness ghost: the sender already claimed on this validator
                                      after its last reward accrual *)
  c_grem : list (Z * Z)            (* harness ghost, per denom, as numerator and denominator: the
                                      sender's entitlement at this validator (sum over the accruals
                                      of reward x shares held / share supply) minus what the sender
                                      has been paid so far *)
}.

Inductive pure_case :=
| PShare (T B amt : Z) (r : option Z)       (* types.CalculateShareByAmount *)
| PAmount (T B sh : Z) (r : option Z)       (* types.CalculateAmountByShare *)
| PReward (m l : Z * Z) (sh : Z) (r : option Z)   (* types.CalculateReward *)
| PMult (old : Z * Z) (rw T : Z) (r : option (Z * Z)).  (* types.CalculateRewardMultiplierNew *)

Inductive c10_any := CStep (c : c10_case) | CPure (p : pure_case).

Definition oracle_of (c : c10_case) : oracle :=
  mkOracle (c_ct c) (c_max c) (nz (c_leak c)) (fun v d => nz (nl (c_rw c) v) d) (c_released c) (c_ret c).
Fixpoint fill_same (pre post : list dcell) : list dcell :=
  match pre, post with
  | p :: pt, q :: qt => (if k_T q =? -1 then p else q) :: fill_same pt qt
  | _, _ => post
  end.
Definition post_of (c : c10_case) : dstate :=
  match c_post c with
  | Some d => mkDS (fill_same (d_cells (c_pre c)) (d_cells d)) (d_ub d) (d_mb d) (d_queue d) (d_next d)
  | None => c_pre c
  end.
Definition vals_of (c : c10_case) : list Z := range (length (d_cells (c_pre c))).

Definition model_step (c : c10_case) : res state :=
  step DENOMS true (vals_of c) (state_of (c_pre c)) (c_op c, oracle_of c).

Definition corr (c : c10_case) : bool :=
  match model_step c with
  | Ok s' => (c_res c =? 0) && state_eqb s' (post_of c)
  | Err e => (c_res c =? e) && state_eqb (state_of (c_pre c)) (post_of c)
  | Panic => (c_res c =? 99) && state_eqb (state_of (c_pre c)) (post_of c)
  end.

Definition ro_eqb (a : res Z) (b : option Z) : bool :=
  match a, b with Ok x, Some y => x =? y | Err _, None => true | _, _ => false end.
Definition pure_corr (p : pure_case) : bool :=
  match p with
  | PShare T B amt r => ro_eqb (calc_share T B amt) r
  | PAmount T B sh r => ro_eqb (calc_amount T B sh) r
  | PReward (mc, me) (lc, le) sh r => ro_eqb (calc_reward (of_ce mc me) (of_ce lc le) sh) r
  | PMult (oc, oe) rw T r =>
      match mult_new (of_ce oc oe) rw T, r with
      | Ok q, Some (c, e) => Qeq_bool q (of_ce c e)
      | Err _, None => true
      | _, _ => false
      end
  end.

(* ---------- monitors: the property text on observed values ---------- *)
Definition zsum (l : list Z) : Z := fold_right Z.add 0 l.
Definition dcell_at (d : dstate) (v : Z) : dcell :=
  if v <? 0 then dcell0 else nth (Z.to_nat v) (d_cells d) dcell0.

(* 1: share tokens exist only against stake the module has delegated (one share class per
   validator: no second denom over the same delegation) *)
Definition backed_cell (k : dcell) : bool :=
  (k_T k <? 0) ||
  (k_alias k =? 0) &&
  (k_T k =? zsum (k_sh k) + k_modsh k) && forallb (fun x => 0 <=? x) (k_sh k) && (0 <=? k_T k) &&
  (if 0 <? k_T k then match k_B k with Some b => 0 <? b | None => false end else true).
Definition mon_backed (c : c10_case) : bool := forallb backed_cell (d_cells (post_of c)).

Definition unchanged (c : c10_case) : bool :=
  match c_post c with None => true | Some _ => state_eqb (state_of (c_pre c)) (post_of c) end.

(* 2: share tokens cannot be transferred *)
Definition mon_send (c : c10_case) : bool :=
  match c_op c with
  | OSend _ _ _ _ => negb (c_res c =? 0) && unchanged c
  | _ => true
  end.

(* the sender's shares cover the amount: amt <= floor(B * s / T) *)
Definition covered (c : c10_case) : bool :=
  match c_op c with
  | OUndelegate u v amt dn rcp =>
      let k := dcell_at (c_pre c) v in
      (dn =? FEE) && (0 <=? rcp) && (0 <=? v) && (0 <? amt) && (0 <? k_T k) &&
      match k_B k with Some b => amt * k_T k <=? b * nz (k_sh k) u | None => false end
  | _ => false
  end.
(* 3: a delegator can always undelegate the value of their shares (refusal because of other
   delegators' pending unbondings is monitor 8) *)
Definition mon_available (c : c10_case) : bool :=
  if covered c then (c_res c =? 0) || (c_res c =? E_MAX_ENTRIES) else true.
(* 8: one delegator's actions never block another's *)
Definition mon_noblock (c : c10_case) : bool :=
  if covered c then negb (c_res c =? E_MAX_ENTRIES) else true.

Definition qrow_eqb (a b : Z * Z * Z * Z) : bool :=
  let '(i, r, t, m) := a in let '(i', r', t', m') := b in
  (i =? i') && (r =? r') && (t =? t') && (m =? m').
Fixpoint remove_one (x : Z * Z * Z * Z) (l : list (Z * Z * Z * Z)) : option (list (Z * Z * Z * Z)) :=
  match l with
  | [] => None
  | y :: tl => if qrow_eqb x y then Some tl
               else match remove_one x tl with Some r => Some (y :: r) | None => None end
  end.
Definition paid_to (q : list (Z * Z * Z * Z)) (r : Z) : Z :=
  zsum (map (fun '(_, r', _, a) => if r' =? r then a else 0) q).

(* 4: the undelegated amount is received exactly once, by the chosen recipient, after the
   unbonding completes *)
Definition mon_paid (c : c10_case) : bool :=
  let pre := c_pre c in let post := post_of c in
  match c_op c with
  | OEndBlock now =>
      let mature := filter (fun '(_, _, t, _) => T0 + t <=? now) (d_queue pre) in
      let rest := filter (fun '(_, _, t, _) => now <? T0 + t) (d_queue pre) in
      if c_res c =? 0 then
        list_eqb qrow_eqb (d_queue post) rest &&
        forallb (fun u => nz (nl (d_ub pre) u) FEE - nz (nl (d_ub post) u) FEE =? paid_to mature u)
                (range (length (d_ub pre)))
      else match mature with [] => true | _ => false end
  | OUndelegate u v amt dn rcp =>
      if c_res c =? 0 then
        (* the entry records what staking reports it unbonds; never more than was asked *)
        (c_ret c <=? amt) &&
        match remove_one (d_next pre, rcp, c_ct c - T0, c_ret c) (d_queue post) with
        | Some q => list_eqb qrow_eqb q (d_queue pre) && (d_next post =? d_next pre + 1)
        | None => false
        end
      else list_eqb qrow_eqb (d_queue post) (d_queue pre)
  | _ => list_eqb qrow_eqb (d_queue post) (d_queue pre)
  end.

Definition actor (c : c10_case) : option (Z * Z) :=
  match c_op c with
  | OClaim u v => Some (u, v)
  | ODelegate u v _ _ => Some (u, v)
  | OUndelegate u v _ _ _ => Some (u, v)
  | _ => None
  end.
(* what the reward saver of the step's validator paid out, per denom *)
Definition paid_out (c : c10_case) (v d : Z) : Z :=
  nz (k_S (dcell_at (c_pre c) v)) d - nz (k_S (dcell_at (post_of c) v)) d.

(* 5: cumulative claims never exceed the entitlement: what this step pays is at most the
   entitlement accrued so far minus what was already paid (both recorded by the harness) *)
Definition mon_entitled (c : c10_case) : bool :=
  match actor c with
  | Some (u, v) =>
      if 0 <=? v then
        forallb (fun d => let '(n, m) := nth (Z.to_nat d) (c_grem c) (0, 1) in paid_out c v d * m <=? n) DENOMS
      else true
  | None => true
  end.
(* 6: a second claim with no new rewards pays nothing *)
Definition mon_second (c : c10_case) : bool :=
  match actor c with
  | Some (u, v) => if c_fresh c then forallb (fun d => paid_out c v d =? 0) DENOMS else true
  | None => true
  end.
(* 7: all claims together never exceed what was received: the reward saver covers what every
   delegator could claim now *)
Definition claimable_now (k : dcell) (u d : Z) : Z :=
  match calc_reward (nq (k_M k) d) (chk_of k u d) (nz (k_sh k) u) with
  | Ok p => p | _ => 0 end.
Definition solvent_cell (k : dcell) : bool :=
  (k_T k <? 0) ||
  forallb (fun d => zsum (map (fun u => claimable_now k u d) (range (length (k_sh k)))) <=? nz (k_S k) d) DENOMS.
Definition mon_solvent (c : c10_case) : bool := forallb solvent_cell (d_cells (post_of c)).

(* 9: principal leaves only against shares: a successful undelegation burns at least one share *)
Definition mon_burns (c : c10_case) : bool :=
  match c_op c with
  | OUndelegate u v amt dn rcp =>
      if c_res c =? 0 then k_T (dcell_at (post_of c) v) <? k_T (dcell_at (c_pre c) v) else true
  | _ => true
  end.
(* 12: an undelegation takes out of the pooled delegation no more than the burned shares are worth:
   amount <= (burned + 2) * delegation / supply (burned = floor(amount * supply / delegation) in
   the module's arithmetic; 2 = that floor plus the 34-digit roundings, see
   ShareClassProofs.cost_covers_amount) *)
Definition mon_covers (c : c10_case) : bool :=
  match c_op c with
  | OUndelegate u v amt dn rcp =>
      if c_res c =? 0 then
        let k := dcell_at (c_pre c) v in
        match k_B k with
        | Some b => amt * k_T k <=? (k_T k - k_T (dcell_at (post_of c) v) + 2) * b
        | None => false
        end
      else true
  | _ => true
  end.
(* 10: a well-formed claim, and a well-formed delegation the sender can pay, succeed *)
Definition mon_live (c : c10_case) : bool :=
  match c_op c with
  | OClaim u v => if 0 <=? v then c_res c =? 0 else true
  | ODelegate u v amt dn =>
      if (0 <=? v) && (dn =? FEE) && (0 <? amt) && (amt <=? ubal (state_of (c_pre c)) u FEE)
      then c_res c =? 0 else true
  | _ => true
  end.

(* 11: staking rewards the module receives for a validator are split among its delegators: they
   reach the reward saver, they are not left on the module account (x/distribution pays the
   pending rewards of a delegation to the delegator, here the module account, whenever the
   delegation changes) *)
Definition mon_noleak (c : c10_case) : bool :=
  match c_op c with
  | ODelegate _ _ _ _ | OUndelegate _ _ _ _ _ => forallb (fun x => x <=? 0) (c_leak c)
  | _ => true
  end.

(* triggers of the known findings *)
(* 1: the module's (delegator, validator) pair is at staking's max_entries *)
Definition trig_entries (c : c10_case) : bool :=
  match c_op c with
  | OUndelegate u v _ _ _ => c_max c <=? k_ent (dcell_at (c_pre c) v)
  | _ => false
  end.
(* 2: the share price of the undelegated amount rounds down to zero *)
Definition trig_zero_cost (c : c10_case) : bool :=
  match c_op c with
  | OUndelegate u v amt _ _ =>
      match k_calc_share (cell_of (dcell_at (c_pre c) v)) amt with Ok 0 => true | _ => false end
  | _ => false
  end.

(* 3: the delegation had pending rewards when the message changed it *)
Definition trig_leak (c : c10_case) : bool := existsb (fun x => 0 <? x) (c_leak c).

Definition c10_check (a : c10_any) : list Z :=
  match a with
  | CPure p => flag 0 (pure_corr p)
  | CStep c =>
      flag 0 (corr c) ++ flag 1 (mon_backed c) ++ flag 2 (mon_send c) ++ flag 3 (mon_available c) ++
      flag 4 (mon_paid c) ++ flag 5 (mon_entitled c) ++ flag 6 (mon_second c) ++
      flag 7 (mon_solvent c) ++ flag 8 (mon_noblock c) ++ flag 9 (mon_burns c) ++
      flag 10 (mon_live c) ++ flag 11 (mon_noleak c) ++ flag 12 (mon_covers c) ++
      flag 101 (negb (trig_entries c)) ++ flag 102 (negb (trig_zero_cost c)) ++ flag 103 (negb (trig_leak c))
  end.

Definition run := run_cases c10_check.
