(* Proofs about the Reed-Solomon model Da/RS.v:
     rs_recovers          any <= m erased shards: ReconstructAndJoinShards returns the blob
                          (and restores every shard);
     rs_too_few_is_error  more than m erased shards: an error, never data.
   The argument: every shard i of the codeword is the row of values at pt i of one polynomial
   per byte column with at most k coefficients (encode_rows); k distinct present shards
   determine those polynomials' values everywhere (Poly.interp_eval_id over the field
   GF256Proofs.gf_field). *)
From Coq Require Import ZArith List Bool Lia Arith Permutation.
From Coq Require Import Init.Byte.
From Sunrise Require Import Base.Outcome Da.Poly Da.GF256 Da.GF256Proofs Da.RS.
Import ListNotations.

(* ---------- the polynomial lemmas at GF(2^8) ---------- *)

Lemma ginterp_interp : forall xs ys, length xs = length ys ->
  ginterp xs ys = interp byte x00 x01 gadd gmul gadd gopp gdiv xs ys.
Proof. intros. unfold ginterp. apply interp_fast_eq. assumption. Qed.

Lemma ginterp_len : forall xs ys, length xs = length ys -> length (ginterp xs ys) <= length xs.
Proof. intros xs ys H. rewrite (ginterp_interp xs ys H). apply length_interp. Qed.

Lemma ginterp_correct : forall xs ys, NoDup xs -> length xs = length ys ->
  map (geval (ginterp xs ys)) xs = ys.
Proof.
  intros xs ys Hnd H. rewrite (ginterp_interp xs ys H).
  exact (interp_correct byte x00 x01 gadd gmul gadd gopp gdiv ginv gf_field xs ys Hnd H).
Qed.

Lemma ginterp_eval_id : forall xs p, NoDup xs -> length p <= length xs ->
  forall x, geval (ginterp xs (map (geval p) xs)) x = geval p x.
Proof.
  intros xs p Hnd Hp x. rewrite ginterp_interp by (rewrite map_length; reflexivity).
  exact (interp_eval_id byte x00 x01 gadd gmul gadd gopp gdiv ginv gf_field xs p Hnd Hp x).
Qed.

(* ---------- lists ---------- *)

Lemma map_nth_seq : forall (A : Type) (l : list A) (d : A),
  map (fun j => nth j l d) (seq 0 (length l)) = l.
Proof.
  intros A l d. induction l as [|a l IH]; [reflexivity|].
  simpl length. rewrite <- cons_seq, <- seq_shift. simpl. rewrite map_map. simpl.
  f_equal. exact IH.
Qed.

Lemma nth_map_seq : forall (A : Type) (f : nat -> A) (n i : nat) (d : A),
  i < n -> nth i (map f (seq 0 n)) d = f i.
Proof.
  intros A f n i d Hi.
  rewrite (nth_indep _ d (f 0)) by (rewrite map_length, seq_length; exact Hi).
  rewrite map_nth. rewrite seq_nth by exact Hi. reflexivity.
Qed.

Lemma NoDup_map_pt : forall l, NoDup l -> (forall i, In i l -> i < 256) -> NoDup (map pt l).
Proof.
  induction l as [|a l IH]; intros Hnd Hlt; simpl; [constructor|].
  inversion Hnd as [|? ? Hnin Hnd']; subst. constructor.
  - intro Hin. apply in_map_iff in Hin. destruct Hin as [b [Hb Hbl]].
    assert (b = a).
    { apply pt_inj; [apply Hlt; right; exact Hbl|apply Hlt; left; reflexivity|exact Hb]. }
    subst. contradiction.
  - apply IH; [exact Hnd'|]. intros i Hi. apply Hlt. right. exact Hi.
Qed.

Lemma filter_length_compl : forall (A : Type) (f : A -> bool) (l : list A),
  length (filter f l) + length (filter (fun x => negb (f x)) l) = length l.
Proof.
  intros A f l. induction l as [|a l IH]; [reflexivity|].
  simpl. destruct (f a); simpl; lia.
Qed.

Lemma filter_length_le' : forall (A : Type) (f : A -> bool) (l : list A),
  length (filter f l) <= length l.
Proof.
  intros A f l. induction l as [|a l IH]; [apply le_n|].
  simpl. destruct (f a); simpl; lia.
Qed.

Lemma filter_length_all : forall (A : Type) (f : A -> bool) (l : list A),
  length (filter f l) = length l -> forall x, In x l -> f x = true.
Proof.
  intros A f l. induction l as [|a l IH]; intros H x Hin; [contradiction|].
  simpl in H. pose proof (filter_length_le' A f l) as Hle.
  destruct (f a) eqn:Fa.
  - simpl in H. destruct Hin as [<-|Hin]; [exact Fa|]. apply IH; [lia|exact Hin].
  - simpl in H. lia.
Qed.

Definition mem (i : nat) (E : list nat) : bool := existsb (Nat.eqb i) E.

Lemma mem_In : forall i E, mem i E = true <-> In i E.
Proof.
  intros i E. unfold mem. rewrite existsb_exists. split.
  - intros [x [Hx Hb]]. apply Nat.eqb_eq in Hb. subst. exact Hx.
  - intros H. exists i. split; [exact H|apply Nat.eqb_refl].
Qed.

(* number of surviving indices *)
Lemma survivors_length : forall E n,
  NoDup E -> (forall i, In i E -> i < n) ->
  length (filter (fun i => negb (mem i E)) (seq 0 n)) = n - length E.
Proof.
  intros E n Hnd Hlt.
  pose proof (filter_length_compl nat (fun i => mem i E) (seq 0 n)) as Hc.
  rewrite seq_length in Hc.
  assert (Hp : Permutation (filter (fun i => mem i E) (seq 0 n)) E).
  { apply NoDup_Permutation.
    - apply NoDup_filter. apply seq_NoDup.
    - exact Hnd.
    - intro x. rewrite filter_In, mem_In, in_seq. split.
      + intros [_ H]. exact H.
      + intros H. split; [|exact H]. specialize (Hlt x H). lia. }
  apply Permutation_length in Hp. lia.
Qed.

Lemma In_firstn : forall (A : Type) (k : nat) (l : list A) (x : A), In x (firstn k l) -> In x l.
Proof.
  intros A k l x H. rewrite <- (firstn_skipn k l). apply in_or_app. left. exact H.
Qed.

Lemma NoDup_firstn : forall (A : Type) (k : nat) (l : list A), NoDup l -> NoDup (firstn k l).
Proof.
  intros A k l. revert k. induction l as [|a l IH]; intros k H.
  - rewrite firstn_nil. constructor.
  - destruct k as [|k]; simpl; [constructor|].
    inversion H as [|? ? Hnin Hnd]; subst. constructor.
    + intro Hin. apply Hnin. apply In_firstn in Hin. exact Hin.
    + apply IH. exact Hnd.
Qed.

(* ---------- chunks ---------- *)

Lemma chunks_spec : forall size k l, length l = k * size ->
  length (chunks size k l) = k /\
  Forall (fun r => length r = size) (chunks size k l) /\
  concat (chunks size k l) = l.
Proof.
  intros size k. induction k as [|k IH]; intros l Hl.
  - simpl in *. destruct l; [|discriminate]. repeat split. constructor.
  - simpl chunks. simpl in Hl.
    assert (Hs : length (skipn size l) = k * size) by (rewrite skipn_length; lia).
    destruct (IH _ Hs) as [H1 [H2 H3]]. repeat split.
    + simpl. rewrite H1. reflexivity.
    + constructor; [apply firstn_length_le; lia|exact H2].
    + simpl. rewrite H3. apply firstn_skipn.
Qed.

(* ---------- rows and columns ---------- *)

Lemma length_row : forall polys i, length (row polys i) = length polys.
Proof. intros. unfold row. apply map_length. Qed.

Lemma nth_row : forall polys i j, j < length polys ->
  nth j (row polys i) x00 = geval (nth j polys []) (pt i).
Proof.
  intros polys i j Hj. unfold row.
  change x00 with ((fun p => geval p (pt i)) []). apply map_nth.
Qed.

Lemma column_rows : forall polys idxs j, j < length polys ->
  column (map (row polys) idxs) j = map (geval (nth j polys [])) (map pt idxs).
Proof.
  intros polys idxs j Hj. unfold column. rewrite !map_map.
  apply map_ext. intro i. apply nth_row. exact Hj.
Qed.

(* k distinct shards of a codeword determine every shard *)
Lemma rows_determined : forall polys idxs k,
  Forall (fun p => length p <= k) polys ->
  length idxs = k -> NoDup idxs -> (forall i, In i idxs -> i < 256) ->
  forall i, row (col_polys (map pt idxs) (map (row polys) idxs) (length polys)) i = row polys i.
Proof.
  intros polys idxs k Hlen Hk Hnd Hlt i.
  unfold row at 1. unfold col_polys. rewrite map_map.
  transitivity (map (fun j => geval (nth j polys []) (pt i)) (seq 0 (length polys))).
  - apply map_ext_in. intros j Hj. apply in_seq in Hj.
    rewrite column_rows by lia.
    apply ginterp_eval_id.
    + apply NoDup_map_pt; assumption.
    + rewrite map_length, Hk. rewrite Forall_forall in Hlen. apply Hlen. apply nth_In. lia.
  - unfold row.
    rewrite <- (map_map (fun j => nth j polys []) (fun p => geval p (pt i))).
    rewrite map_nth_seq. reflexivity.
Qed.

(* the data shards are rows 0..k-1 of the codeword of their column polynomials *)
Lemma encode_rows : forall data size k,
  length data = k -> k <= 256 -> Forall (fun r => length r = size) data ->
  let polys := col_polys (map pt (seq 0 k)) data size in
  length polys = size /\
  Forall (fun p => length p <= k) polys /\
  (forall i, i < k -> row polys i = nth i data []).
Proof.
  intros data size k Hk Hk256 Hrows polys.
  assert (Hxs : NoDup (map pt (seq 0 k))).
  { apply NoDup_map_pt; [apply seq_NoDup|]. intros i Hi. apply in_seq in Hi. lia. }
  assert (Hlx : length (map pt (seq 0 k)) = k) by (rewrite map_length, seq_length; reflexivity).
  assert (Hcol : forall j, length (column data j) = k).
  { intro j. unfold column. rewrite map_length. exact Hk. }
  split; [|split].
  - unfold polys, col_polys. rewrite map_length, seq_length. reflexivity.
  - unfold polys, col_polys. apply Forall_forall. intros p Hp.
    apply in_map_iff in Hp. destruct Hp as [j [<- _]].
    rewrite <- Hlx at 2. apply ginterp_len. rewrite Hlx, Hcol. reflexivity.
  - intros i Hi. unfold polys, col_polys, row. rewrite map_map.
    assert (Hri : length (nth i data []) = size).
    { rewrite Forall_forall in Hrows. apply Hrows. apply nth_In. lia. }
    transitivity (map (fun j => nth j (nth i data []) x00) (seq 0 size));
      [|rewrite <- Hri; apply map_nth_seq].
    apply map_ext_in. intros j Hj.
    pose proof (ginterp_correct (map pt (seq 0 k)) (column data j) Hxs
                  (eq_trans Hlx (eq_sym (Hcol j)))) as Hc.
    assert (Hn : nth i (map (geval (ginterp (map pt (seq 0 k)) (column data j)))
                            (map pt (seq 0 k))) x00 = nth i (column data j) x00)
      by (rewrite Hc; reflexivity).
    rewrite map_map in Hn. rewrite nth_map_seq in Hn by exact Hi.
    rewrite Hn. unfold column.
    rewrite (nth_indep _ x00 ((fun r => nth j r x00) [])) by (rewrite map_length; lia).
    exact (map_nth (fun r => nth j r x00) data [] i).
Qed.

(* ---------- shard bookkeeping ---------- *)

Section Erased.
Variables (polys : list (list byte)) (n : nat) (E Zs : list nat).
Let size := length polys.
Hypothesis Hsize : size <> 0.

Definition lostrep (i : nat) : shard := if mem i Zs then Some [] else None.
Definition eshard (i : nat) : shard := if mem i E then lostrep i else Some (row polys i).
Definition eshards : list shard := map eshard (seq 0 n).

Lemma slen_eshard : forall i, slen (eshard i) = if mem i E then 0 else size.
Proof.
  intro i. unfold eshard, lostrep. destruct (mem i E); simpl; [destruct (mem i Zs); reflexivity|apply length_row].
Qed.

Lemma nth_eshards : forall i, i < n -> nth i eshards None = eshard i.
Proof. intros i Hi. unfold eshards. apply nth_map_seq. exact Hi. Qed.

Lemma length_eshards : length eshards = n.
Proof. unfold eshards. rewrite map_length, seq_length. reflexivity. Qed.

Lemma present_eshards : forall i, i < n -> present eshards i = negb (mem i E).
Proof.
  intros i Hi. unfold present. rewrite (nth_eshards i Hi), slen_eshard.
  destruct (mem i E); simpl; [reflexivity|].
  destruct (Nat.eqb size 0) eqn:Ez; [apply Nat.eqb_eq in Ez; contradiction|reflexivity].
Qed.

Lemma pres_eshards :
  filter (present eshards) (seq 0 n) = filter (fun i => negb (mem i E)) (seq 0 n).
Proof.
  apply filter_ext_in. intros i Hi. apply in_seq in Hi. apply present_eshards. lia.
Qed.

Lemma shard_size_map : forall idxs,
  shard_size (map eshard idxs) =
  if existsb (fun i => negb (mem i E)) idxs then size else 0.
Proof.
  induction idxs as [|i idxs IH]; [reflexivity|].
  simpl. rewrite slen_eshard. destruct (mem i E); simpl.
  - exact IH.
  - destruct (Nat.eqb size 0) eqn:Ez; [apply Nat.eqb_eq in Ez; contradiction|reflexivity].
Qed.

Lemma survivor_exists : forall i, i < n -> mem i E = false ->
  existsb (fun i => negb (mem i E)) (seq 0 n) = true.
Proof.
  intros i Hi Hm. apply existsb_exists. exists i. split; [apply in_seq; lia|].
  rewrite Hm. reflexivity.
Qed.

Lemma check_eshards : forall i, i < n -> mem i E = false -> check_shards true eshards = Ok tt.
Proof.
  intros i Hi Hm. unfold check_shards, eshards.
  rewrite shard_size_map, (survivor_exists i Hi Hm).
  destruct (Nat.eqb size 0) eqn:Ez; [apply Nat.eqb_eq in Ez; contradiction|].
  replace (forallb _ _) with true; [reflexivity|].
  symmetry. apply forallb_forall. intros s Hs. apply in_map_iff in Hs.
  destruct Hs as [j [<- _]]. rewrite slen_eshard. destruct (mem j E).
  - apply orb_true_r.
  - rewrite Nat.eqb_refl. reflexivity.
Qed.

End Erased.

(* ---------- reconstruction ---------- *)

Lemma reconstruct_ok : forall polys k m E Zs,
  length polys <> 0 -> Forall (fun p => length p <= k) polys ->
  1 <= k -> k + m <= 256 ->
  NoDup E -> (forall i, In i E -> i < k + m) -> length E <= m ->
  reconstruct (eshards polys (k + m) E Zs) k = Ok (map (fun i => Some (row polys i)) (seq 0 (k + m))).
Proof.
  intros polys k m E Zs Hsz Hlen Hk Hn Hnd Hin HE.
  set (n := k + m) in *.
  assert (Hnkm : n = k + m) by reflexivity.
  pose proof (survivors_length E n Hnd Hin) as Hsurv.
  assert (Hex : exists i, i < n /\ mem i E = false).
  { destruct (filter (fun i => negb (mem i E)) (seq 0 n)) as [|i tl] eqn:Ef.
    - simpl in Hsurv. lia.
    - assert (Hi : In i (filter (fun i => negb (mem i E)) (seq 0 n))) by (rewrite Ef; left; reflexivity).
      apply filter_In in Hi. destruct Hi as [Hi1 Hi2]. apply in_seq in Hi1.
      exists i. split; [lia|]. destruct (mem i E); [discriminate|reflexivity]. }
  destruct Hex as [i0 [Hi0 Hm0]].
  unfold reconstruct. rewrite (check_eshards polys n E Zs Hsz i0 Hi0 Hm0). simpl rbind.
  rewrite length_eshards, (pres_eshards polys n E Zs Hsz), Hsurv.
  assert (Hss : shard_size (eshards polys n E Zs) = length polys).
  { unfold eshards. rewrite (shard_size_map polys E Zs Hsz), (survivor_exists polys n E Hsz i0 Hi0 Hm0). reflexivity. }
  destruct (Nat.eqb (n - length E) n) eqn:Eall.
  - (* nothing missing *)
    apply Nat.eqb_eq in Eall. f_equal. unfold eshards. apply map_ext_in. intros i Hi.
    assert (Hall : negb (mem i E) = true).
    { apply (filter_length_all nat (fun i => negb (mem i E)) (seq 0 n)); [|exact Hi].
      rewrite Hsurv, seq_length. exact Eall. }
    unfold eshard. destruct (mem i E); [discriminate|reflexivity].
  - assert (Hlt : Nat.ltb (n - length E) k = false) by (apply Nat.ltb_ge; lia).
    rewrite Hlt. f_equal.
    set (pres := filter (fun i => negb (mem i E)) (seq 0 n)).
    set (valid := firstn k pres).
    assert (Hvin : forall i, In i valid -> i < n /\ mem i E = false).
    { intros i Hi. apply In_firstn in Hi. apply filter_In in Hi. destruct Hi as [H1 H2].
      apply in_seq in H1. split; [lia|]. destruct (mem i E); [discriminate|reflexivity]. }
    assert (Hvlen : length valid = k).
    { unfold valid. apply firstn_length_le. unfold pres. rewrite Hsurv. lia. }
    assert (Hvnd : NoDup valid).
    { unfold valid. apply NoDup_firstn. unfold pres. apply NoDup_filter. apply seq_NoDup. }
    assert (Hsub : map (fun i => sbytes (nth i (eshards polys n E Zs) None)) valid = map (row polys) valid).
    { apply map_ext_in. intros i Hi. destruct (Hvin i Hi) as [H1 H2].
      rewrite (nth_eshards polys n E Zs i H1). unfold eshard. rewrite H2. reflexivity. }
    rewrite Hsub, Hss.
    apply map_ext_in. intros i Hi. apply in_seq in Hi.
    rewrite (present_eshards polys n E Zs Hsz i) by lia.
    rewrite (nth_eshards polys n E Zs i) by lia. unfold eshard.
    destruct (mem i E); simpl; [|reflexivity].
    f_equal. apply rows_determined with (k := k).
    + exact Hlen.
    + exact Hvlen.
    + exact Hvnd.
    + intros j Hj. destruct (Hvin j Hj). lia.
Qed.

Lemma reconstruct_too_few : forall polys k m E Zs,
  length polys <> 0 ->
  NoDup E -> (forall i, In i E -> i < k + m) -> m < length E ->
  exists e, reconstruct (eshards polys (k + m) E Zs) k = Err e.
Proof.
  intros polys k m E Zs Hsz Hnd Hin HE.
  set (n := k + m) in *.
  assert (Hnkm : n = k + m) by reflexivity.
  pose proof (survivors_length E n Hnd Hin) as Hsurv.
  unfold reconstruct.
  destruct (filter (fun i => negb (mem i E)) (seq 0 n)) as [|i0 tl] eqn:Ef.
  - (* every shard lost: ErrShardNoData *)
    exists E_SHARD_NO_DATA. unfold check_shards, eshards.
    rewrite (shard_size_map polys E Zs Hsz).
    replace (existsb (fun i => negb (mem i E)) (seq 0 n)) with false; [reflexivity|].
    symmetry. apply not_true_is_false. intro Hex. apply existsb_exists in Hex.
    destruct Hex as [i [Hi1 Hi2]].
    assert (Hi : In i (filter (fun i => negb (mem i E)) (seq 0 n))) by (apply filter_In; split; assumption).
    rewrite Ef in Hi. contradiction.
  - exists E_TOO_FEW.
    assert (Hi : In i0 (filter (fun i => negb (mem i E)) (seq 0 n))) by (rewrite Ef; left; reflexivity).
    apply filter_In in Hi. destruct Hi as [Hi1 Hi2]. apply in_seq in Hi1.
    assert (Hm0 : mem i0 E = false) by (destruct (mem i0 E); [discriminate|reflexivity]).
    rewrite (check_eshards polys n E Zs Hsz i0 ltac:(lia) Hm0). simpl rbind.
    rewrite length_eshards, (pres_eshards polys n E Zs Hsz).
    rewrite Ef. simpl length in Hsurv |- *. rewrite Hsurv.
    assert (H1 : Nat.eqb (n - length E) n = false) by (apply Nat.eqb_neq; lia).
    assert (H2 : Nat.ltb (n - length E) k = true) by (apply Nat.ltb_lt; lia).
    rewrite H1, H2. reflexivity.
Qed.

(* ---------- join ---------- *)

Local Open Scope Z_scope.

Lemma join_scan_ok : forall data acc out,
  out <= acc + Z.of_nat (length (concat data)) ->
  exists s, join_scan (map Some data) acc out = Ok s /\ out <= s.
Proof.
  induction data as [|r data IH]; intros acc out H; simpl in *.
  - exists acc. split; [reflexivity|lia].
  - destruct (out <=? acc + Z.of_nat (length r)) eqn:Ec.
    + exists (acc + Z.of_nat (length r)). split; [reflexivity|apply Z.leb_le; exact Ec].
    + apply IH. rewrite app_length in H. lia.
Qed.

Lemma join_ok : forall (data rest : list (list byte)) out,
  0 <= out <= Z.of_nat (length (concat data)) ->
  join (map Some (data ++ rest)) (length data) out = Ok (firstn (Z.to_nat out) (concat data)).
Proof.
  intros data rest out Hout. unfold join.
  rewrite map_length, app_length.
  assert (Hl : Nat.ltb (length data + length rest) (length data) = false) by (apply Nat.ltb_ge; lia).
  rewrite Hl. rewrite map_app. rewrite firstn_app.
  rewrite map_length, Nat.sub_diag. simpl firstn at 2. rewrite app_nil_r.
  rewrite firstn_all2 by (rewrite map_length; lia).
  destruct (join_scan_ok data 0 out ltac:(lia)) as [s [Hs Hle]].
  rewrite Hs. simpl rbind.
  assert (H1 : (s <? out) = false) by (apply Z.ltb_ge; lia).
  assert (H2 : (out <? 0) = false) by (apply Z.ltb_ge; lia).
  rewrite H1, H2. rewrite ?app_nil_r. rewrite map_map. simpl. rewrite map_id. reflexivity.
Qed.

(* ---------- ErasureCode ---------- *)

Lemma rs_new_ok : forall k m, 1 <= k -> 0 <= m -> k + m <= 256 -> rs_new k m = Ok tt.
Proof.
  intros k m Hk Hm Hn. unfold rs_new.
  assert (H1 : (256 <? k + m) = false) by (apply Z.ltb_ge; lia).
  assert (H2 : (k <=? 0) = false) by (apply Z.leb_gt; lia).
  assert (H3 : (m <? 0) = false) by (apply Z.ltb_ge; lia).
  rewrite H1, H2, H3. reflexivity.
Qed.

Definition padded_len (len k : Z) : Z :=
  if len mod k =? 0 then len else len + (k - len mod k).

Lemma padded_len_spec : forall len k, 0 <= len -> 1 <= k ->
  let len' := padded_len len k in
  len <= len' < len + k /\ len' = k * (len' / k) /\ (0 < len -> 0 < len' / k).
Proof.
  intros len k Hlen Hk len'. unfold len', padded_len.
  pose proof (Z.mod_pos_bound len k ltac:(lia)) as Hm.
  pose proof (Z.div_mod len k ltac:(lia)) as Hd.
  destruct (len mod k =? 0) eqn:Ez.
  - apply Z.eqb_eq in Ez.
    assert (Hq : len = k * (len / k)) by lia.
    split; [lia|]. split; [exact Hq|].
    intro Hpos. apply Z.div_str_pos. split; [lia|].
    destruct (Z_lt_le_dec len k) as [Hlt|Hge]; [|exact Hge].
    rewrite Z.mod_small in Ez by lia. lia.
  - apply Z.eqb_neq in Ez.
    assert (E : len + (k - len mod k) = (len / k + 1) * k) by lia.
    rewrite E. rewrite Z.div_mul by lia.
    split; [lia|]. split; [lia|].
    intro Hpos. pose proof (Z.div_pos len k ltac:(lia) ltac:(lia)). lia.
Qed.

(* what ErasureCode returns: the rows of a codeword whose first k rows are the padded blob *)
Lemma erasure_code_rows : forall blob k m,
  blob <> [] -> 1 <= k -> 0 <= m -> k + m <= 256 ->
  exists size polys data,
    erasure_code blob k m =
      Ok (size, k + m, map (row polys) (seq 0 (Z.to_nat k + Z.to_nat m))) /\
    0 < size /\ length polys = Z.to_nat size /\
    Forall (fun p => (length p <= Z.to_nat k)%nat) polys /\
    length data = Z.to_nat k /\
    map (row polys) (seq 0 (Z.to_nat k)) = data /\
    (exists pad, concat data = blob ++ pad).
Proof.
  intros blob k m Hne Hk Hm Hn.
  unfold erasure_code. rewrite (rs_new_ok k m Hk Hm Hn). simpl rbind.
  set (len := Z.of_nat (length blob)).
  assert (Hlen : 0 < len).
  { unfold len. destruct blob; [contradiction|]. simpl length. lia. }
  fold (padded_len len k).
  destruct (padded_len_spec len k ltac:(lia) Hk) as [Hb [Hq Hpos]].
  set (len' := padded_len len k) in *.
  set (size := len' / k) in *.
  specialize (Hpos Hlen).
  assert (Hz : (size =? 0) = false) by (apply Z.eqb_neq; lia).
  rewrite Hz.
  set (ext := blob ++ repeat x00 (Z.to_nat (len' - len))).
  assert (Hext : length ext = (Z.to_nat k * Z.to_nat size)%nat).
  { unfold ext. rewrite app_length, repeat_length. unfold len in *. nia. }
  destruct (chunks_spec (Z.to_nat size) (Z.to_nat k) ext Hext) as [C1 [C2 C3]].
  set (data := chunks (Z.to_nat size) (Z.to_nat k) ext) in *.
  destruct (encode_rows data (Z.to_nat size) (Z.to_nat k) C1 ltac:(lia) C2) as [P1 [P2 P3]].
  set (polys := col_polys (map pt (seq 0 (Z.to_nat k))) data (Z.to_nat size)) in *.
  assert (Hdata : map (row polys) (seq 0 (Z.to_nat k)) = data).
  { transitivity (map (fun i => nth i data []) (seq 0 (Z.to_nat k)));
      [|rewrite <- C1; apply map_nth_seq].
    apply map_ext_in. intros i Hi. apply in_seq in Hi. apply P3. lia. }
  exists size, polys, data. repeat split; try assumption.
  - unfold encode_parity. fold polys. rewrite seq_app, map_app, Hdata. reflexivity.
  - exists (repeat x00 (Z.to_nat (len' - len))). exact C3.
Qed.

Lemma erase_rows : forall polys n E Zs,
  erase_as E Zs (map (row polys) (seq 0 n)) = eshards polys n E Zs.
Proof.
  intros polys n E Zs. unfold erase_as, eshards. rewrite map_length, seq_length.
  apply map_ext_in. intros i Hi. apply in_seq in Hi. unfold eshard, lostrep. fold (mem i E). fold (mem i Zs).
  destruct (mem i E); [reflexivity|]. f_equal. apply nth_map_seq. lia.
Qed.

(* ---------- the theorems ---------- *)

Theorem rs_recovers_as : forall (blob : list byte) (k m : Z) (E Zs : list nat),
  blob <> [] -> 1 <= k -> 0 <= m -> k + m <= 256 ->
  NoDup E -> (forall i, In i E -> (i < Z.to_nat (k + m))%nat) -> Z.of_nat (length E) <= m ->
  exists size shards,
    erasure_code blob k m = Ok (size, k + m, shards) /\
    length shards = Z.to_nat (k + m) /\
    reconstruct_and_join (erase_as E Zs shards) k (Z.of_nat (length blob)) = (Ok blob, map Some shards).
Proof.
  intros blob k m E Zs Hne Hk Hm Hn Hnd Hin HE.
  destruct (erasure_code_rows blob k m Hne Hk Hm Hn)
    as [size [polys [data [Hec [Hsz [Hpl [Hpk [Hdl [Hdata [pad Hcat]]]]]]]]]].
  exists size, (map (row polys) (seq 0 (Z.to_nat k + Z.to_nat m))).
  split; [exact Hec|]. split; [rewrite map_length, seq_length; lia|].
  rewrite erase_rows. unfold reconstruct_and_join.
  rewrite length_eshards.
  replace (Z.of_nat (Z.to_nat k + Z.to_nat m) - k) with m by lia.
  rewrite (rs_new_ok k m Hk Hm Hn).
  rewrite (reconstruct_ok polys (Z.to_nat k) (Z.to_nat m) E Zs) by
    (try assumption; try lia; intros i Hi; specialize (Hin i Hi); lia).
  rewrite <- map_map with (g := Some) (f := row polys). f_equal.
  unfold join_shards. rewrite map_length, map_length, seq_length.
  replace (Z.of_nat (Z.to_nat k + Z.to_nat m) - k) with m by lia.
  rewrite (rs_new_ok k m Hk Hm Hn). simpl rbind.
  rewrite seq_app, map_app, Hdata. rewrite <- Hdl.
  rewrite join_ok.
  - rewrite Hcat, Nat2Z.id, firstn_app, Nat.sub_diag. simpl. rewrite app_nil_r. f_equal. apply firstn_all.
  - rewrite Hcat, app_length. lia.
Qed.

Theorem rs_too_few_is_error_as : forall (blob : list byte) (k m : Z) (E Zs : list nat),
  blob <> [] -> 1 <= k -> 0 <= m -> k + m <= 256 ->
  NoDup E -> (forall i, In i E -> (i < Z.to_nat (k + m))%nat) -> m < Z.of_nat (length E) ->
  exists size shards e,
    erasure_code blob k m = Ok (size, k + m, shards) /\
    reconstruct_and_join (erase_as E Zs shards) k (Z.of_nat (length blob)) = (Err e, erase_as E Zs shards).
Proof.
  intros blob k m E Zs Hne Hk Hm Hn Hnd Hin HE.
  destruct (erasure_code_rows blob k m Hne Hk Hm Hn)
    as [size [polys [data [Hec [Hsz [Hpl [Hpk [Hdl [Hdata [pad Hcat]]]]]]]]]].
  destruct (reconstruct_too_few polys (Z.to_nat k) (Z.to_nat m) E Zs) as [e He];
    try assumption; try lia.
  { intros i Hi. specialize (Hin i Hi). lia. }
  exists size, (map (row polys) (seq 0 (Z.to_nat k + Z.to_nat m))), e.
  split; [exact Hec|].
  rewrite erase_rows. unfold reconstruct_and_join.
  rewrite length_eshards.
  replace (Z.of_nat (Z.to_nat k + Z.to_nat m) - k) with m by lia.
  rewrite (rs_new_ok k m Hk Hm Hn), He. reflexivity.
Qed.

(* the same with every lost shard given as nil *)
Theorem rs_recovers : forall (blob : list byte) (k m : Z) (E : list nat),
  blob <> [] -> 1 <= k -> 0 <= m -> k + m <= 256 ->
  NoDup E -> (forall i, In i E -> (i < Z.to_nat (k + m))%nat) -> Z.of_nat (length E) <= m ->
  exists size shards,
    erasure_code blob k m = Ok (size, k + m, shards) /\
    length shards = Z.to_nat (k + m) /\
    reconstruct_and_join (erase E shards) k (Z.of_nat (length blob)) = (Ok blob, map Some shards).
Proof. intros blob k m E. exact (rs_recovers_as blob k m E []). Qed.

Theorem rs_too_few_is_error : forall (blob : list byte) (k m : Z) (E : list nat),
  blob <> [] -> 1 <= k -> 0 <= m -> k + m <= 256 ->
  NoDup E -> (forall i, In i E -> (i < Z.to_nat (k + m))%nat) -> m < Z.of_nat (length E) ->
  exists size shards e,
    erasure_code blob k m = Ok (size, k + m, shards) /\
    reconstruct_and_join (erase E shards) k (Z.of_nat (length blob)) = (Err e, erase E shards).
Proof. intros blob k m E. exact (rs_too_few_is_error_as blob k m E []). Qed.

(* the empty blob cannot be erasure coded: Encode rejects all-empty shards *)
Theorem erasure_code_empty : forall k m, 1 <= k -> 0 <= m -> k + m <= 256 ->
  erasure_code [] k m = Err E_SHARD_NO_DATA.
Proof.
  intros k m Hk Hm Hn. unfold erasure_code. rewrite (rs_new_ok k m Hk Hm Hn). simpl.
  reflexivity.
Qed.

(* shape of the result: shard size = ceil(len / k), k + m shards, the data shards are the
   zero-padded blob cut into k pieces (the code is systematic) *)
Theorem erasure_code_shape : forall blob k m size cnt shards,
  1 <= k -> 0 <= m -> k + m <= 256 ->
  erasure_code blob k m = Ok (size, cnt, shards) ->
  cnt = k + m /\ k * (size - 1) < Z.of_nat (length blob) <= k * size /\
  length shards = Z.to_nat (k + m) /\
  Forall (fun s => length s = Z.to_nat size) shards /\
  exists pad, concat (firstn (Z.to_nat k) shards) = blob ++ pad /\ Forall (eq x00) pad.
Proof.
  intros blob k m size cnt shards Hk Hm Hn H.
  unfold erasure_code in H. rewrite (rs_new_ok k m Hk Hm Hn) in H. simpl rbind in H.
  set (len := Z.of_nat (length blob)) in *.
  fold (padded_len len k) in H.
  destruct (padded_len_spec len k ltac:(unfold len; lia) Hk) as [Hb [Hq _]].
  set (len' := padded_len len k) in *.
  destruct (len' / k =? 0) eqn:Ez; [discriminate|].
  apply Z.eqb_neq in Ez. inversion H; subst size cnt shards; clear H.
  set (size := len' / k) in *.
  assert (Hsz : 0 < size).
  { assert (0 <= size) by (apply Z.div_pos; lia). lia. }
  set (ext := blob ++ repeat x00 (Z.to_nat (len' - len))).
  assert (Hext : length ext = (Z.to_nat k * Z.to_nat size)%nat).
  { unfold ext. rewrite app_length, repeat_length. unfold len in *. nia. }
  destruct (chunks_spec (Z.to_nat size) (Z.to_nat k) ext Hext) as [C1 [C2 C3]].
  set (data := chunks (Z.to_nat size) (Z.to_nat k) ext) in *.
  split; [reflexivity|]. split; [nia|]. split; [|split].
  - rewrite app_length, C1. unfold encode_parity. rewrite map_length, seq_length. lia.
  - apply Forall_app. split; [exact C2|].
    unfold encode_parity. apply Forall_forall. intros s Hs. apply in_map_iff in Hs.
    destruct Hs as [i [<- _]]. rewrite length_row. unfold col_polys.
    rewrite map_length, seq_length. reflexivity.
  - exists (repeat x00 (Z.to_nat (len' - len))). split.
    + rewrite firstn_app, <- C1, Nat.sub_diag, firstn_all. simpl. rewrite app_nil_r. exact C3.
    + apply Forall_forall. intros x Hx. apply repeat_spec in Hx. symmetry. exact Hx.
Qed.

(* the recovery statement cannot be extended to the empty blob: the encoder refuses it *)
Theorem rs_recovers_full_refuted :
  ~ (forall (blob : list byte) (k m : Z), 1 <= k -> 0 <= m -> k + m <= 256 ->
     exists size shards, erasure_code blob k m = Ok (size, k + m, shards)).
Proof.
  intro H. destruct (H [] 1 0 ltac:(lia) ltac:(lia) ltac:(lia)) as [s [sh E]].
  vm_compute in E. discriminate.
Qed.
