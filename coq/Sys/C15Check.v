(* Correspondence + monitors for C15.  Evaluated by generated cases files.

   Case kinds (all observed on the real code under recover):
     CMemo   one memo / packet: DecodeSwapMetadata, SwapMetadata.Validate on the decoded
             value, IBCMiddleware.OnRecvPacket (transfer stack below replaced by a spy)
     CRoute  Route.Validate on a route value (including shapes no decoder produces)
     CMeta   SwapMetadata.Validate on a metadata value
     CHead   one Msg / Query service method of a custom module on the running application

   Codes: 0 = the model's prediction differs from the observation (or the observed request
   does not have the generated signature); 1 = a panic was observed (the property
   statement); 101.. = trigger of a known finding holds on the case. *)
From Coq Require Import ZArith List Bool String.
Import ListNotations.
From Sunrise Require Export Base.Outcome Base.Check Base.Dec Swap.Memo Sys.Inputs Gen.Msgs_gen.
Local Open Scope Z_scope.

(* observed outcome classes *)
Definition O_OK : Z := 0.
Definition O_ERR : Z := 1.
Definition O_PANIC : Z := 2.

Inductive c15_case :=
| CMemo (doc : option json) (pb : pb_res)
        (dec : Z)        (* decode: 0 ok, 1 ok with Forward.Next filled, 10+e error class e, -1 panic, -3 not observed *)
        (val : Z)        (* validate on the decoded metadata: 0 ok, 1 error, -1 panic, -2 not applicable *)
        (data_ok : bool) (denom_matches : bool)
        (rcv : Z)        (* OnRecvPacket: 0 passed down, 1 error ack, 2 continued, 3 other, -1 panic *)
| CRoute (r : option route) (obs : Z)
| CMeta (m : swap_meta) (obs : Z)
| CHead (name : string) (req : fval)
        (n : Z)                    (* length of the stored slice the request indexes into (shard hashes of the addressed DA item), 0 otherwise *)
        (o : option (list bool))   (* outcomes of the state-dependent branches, when the harness can determine them from the state *)
        (ratio : Z)                (* raw price ratio of the liquidity pool the request addresses (read from the state), 0 otherwise *)
        (obs : Z)
| CLiq (base : bool)      (* types.LiquidityBase (true) / LiquidityQuote (false), called directly *)
       (amount sa sb : Z)  (* amount, the two sqrt prices (raw decimals) *)
       (obs : Z) (v : Z)   (* 0 = returned the raw decimal v, 3 = panic "division by zero", 4 = panic "Int overflow", 2 = other panic *)
| CFee (rate : option Z)  (* LegacyNewDecFromStr of the interface fee rate set through MsgUpdateParams (persisted) *)
       (upd : Z)          (* outcome of the update *)
       (quote : Z).       (* outcome of an exact-out quote of 1000 with the interface fee, afterwards *)

Definition class_of {A} (x : res A) : Z :=
  match x with Ok _ => O_OK | Err _ => O_ERR | Panic => O_PANIC end.

(* ---- memo *)
Definition dec_code (x : res (swap_meta * bool)) : Z :=
  match x with
  | Ok (_, false) => 0
  | Ok (_, true) => 1
  | Err e => 10 + e
  | Panic => -1
  end.
Definition val_code (x : res (swap_meta * bool)) : Z :=
  match x with
  | Ok (m, _) => match meta_validate patched m with Ok _ => 0 | Err _ => 1 | Panic => -1 end
  | _ => -2
  end.
Definition rcv_code (x : res recv) : Z :=
  match x with
  | Ok RecvPassDown => 0
  | Ok RecvErrAck => 1
  | Ok RecvContinue => 2
  | Err _ => 3
  | Panic => -1
  end.

Definition memo_corr (doc : option json) (pb : pb_res) (dec val : Z) (data_ok dm : bool) (rcv : Z) : bool :=
  let d := decode patched doc pb in
  ((dec =? -3) || ((dec_code d =? dec) && (val_code d =? val))) &&
  (rcv_code (recv_head patched data_ok doc pb dm) =? rcv).

(* ---- service methods *)
Fixpoint find_sig (name : string) (l : list (string * bool * sig)) : option sig :=
  match l with
  | [] => None
  | (n, _, s) :: tl => if String.eqb name n then Some s else find_sig name tl
  end.

Definition head_corr (name : string) (req : fval) (n : Z) (o : option (list bool)) (obs : Z) : bool :=
  match find_spec name (specs all_on), find_sig name methods_gen with
  | Some (_, cs), Some sg =>
      conforms req sg && wf_val req &&
      match (match o with Some ol => run n ol cs req | None => run_static n cs req end) with
      | Err _ => obs =? O_ERR          (* the head rejects (statically, or given the branch outcomes): the handler must return an error *)
      | Panic => obs =? O_PANIC
      | Ok _ =>                        (* beyond the modelled part no prediction, unless the head ends in KDone: *)
          match o with                 (* then the handler accepts *)
          | None => if static_done n cs req then obs =? O_OK else true
          | Some _ => true
          end
      end
  | _, _ => false
  end.

(* ---- triggers of known findings *)
(* KF1: a quantity of absurd magnitude (>= 2^128) somewhere in the request: checked
   LegacyDec / Int arithmetic deep in the AMM / fee code panics ("Int overflow") *)
Definition HUGE : Z := 2 ^ 128.
Definition zbig (z : Z) : bool := HUGE <=? Z.abs z.
Definition obig (o : option Z) : bool := match o with Some z => zbig z | None => false end.
Fixpoint route_big (r : route) : bool :=
  match r with
  | RNone _ _ => false
  | RPool _ _ p => obig p
  | RSeries _ _ _ rs => (fix any (l : list route) := match l with [] => false | x :: tl => route_big x || any tl end) rs
  | RParallel _ _ _ rs ws =>
      (fix any (l : list route) := match l with [] => false | x :: tl => route_big x || any tl end) rs ||
      existsb (fun w => match w with WDec raw => zbig raw | WBad => false end) ws
  end.
Fixpoint val_big (v : fval) : bool :=
  match v with
  | VStr s => obig (si_int s) || obig (si_dec s)
  | VInt o | VDec o => obig o
  | VNum z => zbig z
  | VList l | VMsg _ l => (fix any (l : list fval) := match l with [] => false | x :: tl => val_big x || any tl end) l
  | VRoute (Some r) => route_big r
  | _ => false
  end.
(* KF2: priceRatio^tick overflows the decimal range inside Power (TickToMultipliedPrice) in the
   liquidity-pool position calls.  ratio^|tick| leaves the range when |tick| * ln(ratio) exceeds
   about 175; since ln(r) <= r - 1 the trigger |tick| * (ratio - 1) >= 100 contains every such case
   (for the usual ratio 1.0001 it is |tick| >= 10^6; for the largest admissible ratio 1.5, |tick| >= 200).
   Without a pool (ratio unknown) the bound for the smallest admissible ratio is used. *)
Definition TICK_BIG : Z := 1000000.
Definition tick_big (ratio t : Z) : bool :=
  if ratio <=? P then TICK_BIG <=? Z.abs t else 100 * P <=? Z.abs t * (ratio - P).
Definition tick_at (ratio : Z) (p : path) (req : fval) : bool :=
  match get p req with
  | Some (VNum z) => tick_big ratio z
  | Some (VStr s) => match si_int s with Some z => tick_big ratio z | None => false end
  | _ => false
  end.
Definition trig_tick (name : string) (req : fval) (ratio : Z) : bool :=
  if String.eqb name "liquiditypool.Msg.CreatePosition" then tick_at ratio [2%nat] req || tick_at ratio [3%nat] req
  else if String.eqb name "liquiditypool.Query.CalculationCreatePosition" then tick_at ratio [1%nat] req || tick_at ratio [2%nat] req
  else false.

Definition meta_big (m : swap_meta) : bool :=
  match sm_route m with Some r => route_big r | None => false end ||
  match sm_amt m with
  | AIn (Some o) => obig o
  | AOut (Some (o, _)) => obig o
  | _ => false
  end.

(* the update is accepted exactly for the rates the repaired Params.Validate accepts, and for
   those the fee division of the exact-out quote is defined *)
Definition fee_corr (rate : option Z) (upd : Z) : bool :=
  match rate with
  | None => upd =? O_ERR
  | Some r => if swap_rate_ok true r
              then (upd =? O_OK) && match fee_gross r 1000 with Some _ => true | None => false end
              else upd =? O_ERR
  end.

Definition liq_corr (base : bool) (amount sa sb obs v : Z) : bool :=
  match (if base then liq_base true amount sa sb else liq_quote true amount sa sb) with
  | DOk z => (obs =? 0) && (v =? z)
  | DDivZero => obs =? 3
  | DOverflow => obs =? 4
  end.

Definition c15_check (c : c15_case) : list Z :=
  match c with
  | CMemo doc pb dec val data_ok dm rcv =>
      flag 0 (memo_corr doc pb dec val data_ok dm rcv) ++
      flag 1 (negb ((dec =? -1) || (val =? -1) || (rcv =? -1))) ++
      match pb with PbOk (Some m) => if meta_big m then [101] else [] | _ => [] end
  | CRoute r obs =>
      flag 0 (class_of (route_validate patched r) =? obs) ++ flag 1 (negb (obs =? O_PANIC))
  | CMeta m obs =>
      flag 0 (class_of (meta_validate patched m) =? obs) ++ flag 1 (negb (obs =? O_PANIC))
  | CHead name req n o ratio obs =>
      flag 0 (head_corr name req n o obs) ++ flag 1 (negb (obs =? O_PANIC)) ++
      (if val_big req then [101] else []) ++ (if trig_tick name req ratio then [102] else [])
  | CLiq base amount sa sb obs v =>
      (* the pure function is not an entry point: its overflow on out-of-range operands is not a
         finding here; a division by zero is (the zero-width operands are reachable from a query) *)
      flag 0 (liq_corr base amount sa sb obs v) ++ flag 1 (negb (obs =? 3))
  | CFee rate upd quote =>
      flag 0 (fee_corr rate upd) ++ flag 1 (negb ((upd =? O_PANIC) || (quote =? O_PANIC)))
  end.

Definition run_c15 := run_cases c15_check.
