package c02

// Fee growth "inside" a range can legitimately be negative: the accumulator initialises the growth
// outside of a tick to the whole accumulator value when the tick is at or below the price ("all fees
// so far were earned below"), so for a range whose upper tick T was initialised while the price was
// above it, then crossed downward after fees had accrued, and whose lower tick is initialised only
// afterwards, (global - outside) is below zero.  The position's checkpoint is that negative value;
// claims and exits must work from it (the model keeps DecCoins as Z vectors and uses the flag-less
// SafeSub exactly there).  Both directions are exercised: a new range hanging below an initialised
// tick that was crossed downward, and one standing on an initialised tick that was crossed upward.

import (
	"fmt"
	"math/big"

	sdk "github.com/cosmos/cosmos-sdk/types"

	"verifharness/amm"
)

func (r *runner) curTick(ctx sdk.Context, p amm.PoolInfo) int64 {
	pool, _, _ := r.w.K.GetPool(ctx, p.ID)
	return pool.CurrentTick
}

// negativeCheckpoints counts accumulator positions of the module whose checkpoint has a negative component.
func (r *runner) negativeCheckpoints(ctx sdk.Context) int {
	n := 0
	for _, ap := range r.w.K.GetAllAccumulatorPositions(ctx) {
		for _, c := range ap.AccumValuePerShare {
			if c.Amount.IsNegative() {
				n++
				break
			}
		}
	}
	return n
}

func (r *runner) claimAll(ctx sdk.Context, p amm.PoolInfo, tag string) {
	for _, q := range r.w.C02Positions(ctx, p) {
		r.commit(ctx, p, amm.Op{Kind: "claim", Sender: r.ownerIndex(q.Address), Pids: []uint64{q.Id}, Tag: tag})
	}
}

func (r *runner) scenarioCrossedTick(ctx sdk.Context, down bool, maxOrders int) error {
	p, err := r.w.CreatePool("uatom", "urise", "0.003", "1.0001", "0")
	if err != nil {
		return err
	}
	name := "crossed-up"
	if down {
		name = "crossed-down"
	}
	tag := func(s string) string { return name + "/" + s }
	r.commit(ctx, p, create(0, -300, 300, bi("10000000"), bi("10000000"), tag("wide")))
	// fees accrue before the second range exists and before its tick is crossed
	r.commit(ctx, p, swapOp(3, true, 0, bi("400000"), tag("fees-before")))
	r.commit(ctx, p, swapOp(3, true, 1, bi("400000"), tag("fees-before")))
	var T int64
	if down {
		T = -100
		r.commit(ctx, p, create(1, -200, T, bi("0"), bi("3000000"), tag("range-below")))
		r.commit(ctx, p, swapOp(3, true, 1, bi("300000"), tag("fees-after-tick-initialised")))
		r.commit(ctx, p, swapOp(3, true, 0, bi("7300000"), tag("swap-down-across-T")))
	} else {
		T = 100
		r.commit(ctx, p, create(1, T, 200, bi("3000000"), bi("0"), tag("range-above")))
		r.commit(ctx, p, swapOp(3, true, 0, bi("300000"), tag("fees-after-tick-initialised")))
		r.commit(ctx, p, swapOp(3, true, 1, bi("7300000"), tag("swap-up-across-T")))
	}
	cur := r.curTick(ctx, p)
	before := r.negativeCheckpoints(ctx)
	switch {
	case down && cur < T-25 && cur > -200:
		r.commit(ctx, p, create(2, cur-20, T, bi("900000"), bi("900000"), tag("new-range-below-crossed-tick")))
		// and a second provider on the same two ticks (both exist now; the lower one was initialised after the crossing)
		r.commit(ctx, p, create(0, cur-20, T, bi("300000"), bi("300000"), tag("same-range-on-existing-ticks")))
	case !down && cur > T+25 && cur < 200:
		r.commit(ctx, p, create(2, T, cur+20, bi("900000"), bi("900000"), tag("new-range-on-crossed-tick")))
	default:
		r.st.Count("crossed-tick-scenario:price-not-where-expected")
		return fmt.Errorf("crossed-tick scenario (%s): price at tick %d after the crossing swap", name, cur)
	}
	if r.negativeCheckpoints(ctx) > before {
		r.st.Count("position-with-negative-fee-checkpoint")
		r.st.Nontriv(fmt.Sprintf("negative-checkpoint/%d", p.ID))
	}
	// fees accrue inside the new range, then everybody claims, trades go on, everybody claims again
	r.commit(ctx, p, swapOp(3, true, 1, bi("150000"), tag("fees-inside")))
	r.commit(ctx, p, swapOp(3, true, 0, bi("150000"), tag("fees-inside")))
	r.claimAll(ctx, p, tag("claim"))
	for _, q := range r.w.C02Positions(ctx, p) {
		if r.ownerIndex(q.Address) == 2 {
			l := amm.C02Raw(q.Liquidity)
			r.commit(ctx, p, amm.Op{Kind: "decrease", Sender: 2, Pid: q.Id, Liq: l.Div(l, big.NewInt(4)), Tag: tag("decrease-part")})
		}
	}
	for _, q := range r.w.C02Positions(ctx, p) {
		if r.ownerIndex(q.Address) == 2 {
			r.commit(ctx, p, amm.Op{Kind: "increase", Sender: 2, Pid: q.Id, Base: bi("1000"), Quote: bi("1000"), MinBase: bi("0"), MinQuote: bi("0"), Tag: tag("increase")})
		}
	}
	r.drainPool(ctx, p, 4, maxOrders, name)
	return nil
}
