// Package dacommon drives the real x/da module of the running application for the
// correspondence checks of C07 (challenge state machine, deadlines) and C08 (collateral).
// One "world" is a fresh application; a history of operations (messages and block ends at
// chosen times) is executed on it and, around every operation, the projection of the state
// that Da/Da.v talks about is dumped from the real keepers and the real bank.
package dacommon

import (
	"bufio"
	"bytes"
	"errors"
	"fmt"
	"math/big"
	"sort"
	"strings"
	"time"

	sdkmath "cosmossdk.io/math"
	"github.com/consensys/gnark-crypto/ecc"
	native_mimc "github.com/consensys/gnark-crypto/ecc/bn254/fr/mimc"
	"github.com/consensys/gnark/backend/groth16"
	groth16bn254 "github.com/consensys/gnark/backend/groth16/bn254"
	"github.com/consensys/gnark/frontend"
	"github.com/consensys/gnark/frontend/cs/r1cs"
	gnarklogger "github.com/consensys/gnark/logger"
	sdk "github.com/cosmos/cosmos-sdk/types"
	sdkerrors "github.com/cosmos/cosmos-sdk/types/errors"
	authtypes "github.com/cosmos/cosmos-sdk/x/auth/types"

	dakeeper "github.com/sunriselayer/sunrise/x/da/keeper"
	datypes "github.com/sunriselayer/sunrise/x/da/types"
	"github.com/sunriselayer/sunrise/x/da/zkp"

	"verifharness/apph"
	"verifharness/emit"
)

// Denoms tracked by the projection, in sdk.Coins order (position = denom id in the model).
var Denoms = []string{"urise", "uusdc"}

// Status numbers are those of the protobuf enum (and of Da/Da.v).
const (
	StVerified  = 1
	StRejected  = 2
	StChallenge = 3
	StChalling  = 4
)

// ---------- zero-knowledge proof pool (generated once per process) ----------

type ProofPool struct {
	Hashes [][]byte // "double hashes" published with the items
	Proofs [][]byte // Proofs[j] proves knowledge of the pre-image of Hashes[j]
	vk     groth16.VerifyingKey
}

var pool *ProofPool

// Pool builds k real Groth16 proofs with the proving key of the default params.
func Pool() *ProofPool {
	if pool != nil {
		return pool
	}
	const k = 3
	gnarklogger.Disable()
	params := datypes.DefaultParams()
	ccs, err := frontend.Compile(ecc.BN254.ScalarField(), r1cs.NewBuilder, &zkp.ValidityProofCircuit{})
	if err != nil {
		panic(err)
	}
	pk, err := zkp.UnmarshalProvingKey(params.ZkpProvingKey)
	if err != nil {
		panic(err)
	}
	vk, err := zkp.UnmarshalVerifyingKey(params.ZkpVerifyingKey)
	if err != nil {
		panic(err)
	}
	p := &ProofPool{vk: vk}
	for j := 0; j < k; j++ {
		pre := big.NewInt(int64(1000 + 17*j))
		m := native_mimc.NewMiMC()
		m.Write(pre.Bytes())
		hash := m.Sum(nil)
		w, err := frontend.NewWitness(&zkp.ValidityProofCircuit{ShardHash: pre, ShardDoubleHash: hash}, ecc.BN254.ScalarField())
		if err != nil {
			panic(err)
		}
		proof, err := groth16.Prove(ccs, pk, w)
		if err != nil {
			panic(err)
		}
		var b bytes.Buffer
		bw := bufio.NewWriter(&b)
		if _, err := proof.WriteTo(bw); err != nil {
			panic(err)
		}
		bw.Flush()
		p.Hashes = append(p.Hashes, hash)
		p.Proofs = append(p.Proofs, b.Bytes())
	}
	pool = p
	return p
}

// HashAt is the hash published at shard position i of every generated item.
func (p *ProofPool) HashAt(i int) []byte { return p.Hashes[i%len(p.Hashes)] }

// Oracle for one (proof bytes, public hash): does it parse, does gnark accept it.
func (p *ProofPool) Oracle(proofBz []byte, hash []byte) (parse, verify bool) {
	pr := &groth16bn254.Proof{}
	if _, err := pr.ReadFrom(bytes.NewReader(proofBz)); err != nil {
		return false, false
	}
	if hash == nil {
		return true, false
	}
	w, err := frontend.NewWitness(&zkp.ValidityProofCircuit{ShardHash: big.NewInt(1), ShardDoubleHash: hash}, ecc.BN254.ScalarField())
	if err != nil {
		return true, false
	}
	pub, err := w.Public()
	if err != nil {
		return true, false
	}
	return true, groth16.Verify(pr, p.vk, pub) == nil
}

// ---------- world ----------

type World struct {
	H       *apph.H
	Srv     datypes.MsgServer
	Princ   []sdk.AccAddress // principal id i (1-based) = Princ[i-1], sorted by address bytes
	IsVal   []bool           // per principal
	ValIDs  []int
	AcctIDs []int
	ids     map[string]int // bech32 account string -> id
	ModAddr sdk.AccAddress
	Auth    string
	NextURI int
	Pool    *ProofPool
}

func URI(id int) string { return fmt.Sprintf("ipfs://verif-%06d", id) }

func uriID(s string) int {
	var id int
	if _, err := fmt.Sscanf(s, "ipfs://verif-%06d", &id); err != nil {
		panic("foreign uri " + s)
	}
	return id
}

// NewWorld starts an application with nAcct funded accounts and nVal bonded validators.
func NewWorld(nAcct, nVal int, balance int64) *World {
	bal := sdk.NewCoins(sdk.NewCoin("urise", sdkmath.NewInt(balance)), sdk.NewCoin("uusdc", sdkmath.NewInt(balance)))
	h := apph.New(apph.Options{NumAccounts: nAcct, NumValidators: nVal, Balances: bal})
	w := &World{H: h, Srv: dakeeper.NewMsgServerImpl(h.App.DaKeeper), ids: map[string]int{}, NextURI: 1, Pool: Pool()}
	type pr struct {
		a   sdk.AccAddress
		val bool
	}
	var ps []pr
	for _, a := range h.Accts {
		ps = append(ps, pr{a.Addr, false})
	}
	for _, v := range h.Vals {
		ps = append(ps, pr{sdk.AccAddress(v.Address), true})
	}
	sort.Slice(ps, func(i, j int) bool { return bytes.Compare(ps[i].a, ps[j].a) < 0 })
	for i, p := range ps {
		w.Princ = append(w.Princ, p.a)
		w.IsVal = append(w.IsVal, p.val)
		w.ids[p.a.String()] = i + 1
		if p.val {
			w.ValIDs = append(w.ValIDs, i+1)
		} else {
			w.AcctIDs = append(w.AcctIDs, i+1)
		}
	}
	w.ModAddr = authtypes.NewModuleAddress(datypes.ModuleName)
	w.ids[w.ModAddr.String()] = 0
	auth, err := h.App.AuthKeeper.AddressCodec().BytesToString(h.App.DaKeeper.GetAuthority())
	if err != nil {
		panic(err)
	}
	w.Auth = auth
	return w
}

func (w *World) Close() { w.H.Close() }

func (w *World) Addr(id int) sdk.AccAddress {
	if id == 0 {
		return w.ModAddr
	}
	return w.Princ[id-1]
}

// ID maps an address string as stored by the application (any spelling that decodes) to the
// principal id.
func (w *World) ID(bech string) int {
	if a, err := sdk.AccAddressFromBech32(bech); err == nil {
		bech = a.String() // canonical spelling
	}
	id, ok := w.ids[bech]
	if !ok {
		panic("unknown principal " + bech)
	}
	return id
}

// Spelling flags of an operation: which address-typed fields of the message are written in
// upper case (bech32 allows all-lower and all-upper; both decode to the same bytes and signer).
const (
	UpSender = 1 << iota
	UpValidator
	UpDeputy
)

func spell(s string, upper bool) string {
	if upper {
		return strings.ToUpper(s)
	}
	return s
}

// SetParams goes through the real MsgUpdateParams handler (so Params.Validate applies).
func (w *World) SetParams(mut func(p *datypes.Params)) error {
	ctx := w.H.Ctx()
	p, err := w.H.App.DaKeeper.Params.Get(ctx)
	if err != nil {
		return err
	}
	mut(&p)
	return apph.Tx(ctx, func(ctx sdk.Context) error {
		_, e := w.Srv.UpdateParams(ctx, &datypes.MsgUpdateParams{Authority: w.Auth, Params: p})
		return e
	})
}

// ---------- projection of the real state ----------

type Item struct {
	URI, Status int
	Ts          int64 // unix nanoseconds
	N           int
	Parity      uint64
	Publisher   int
	PC, IC      []*big.Int
}
type Inval struct {
	URI, Sender int
	Idx         []int64
}
type Prf struct {
	URI, Val int
	Idx      []int64
}
type Params struct {
	Thr, RF          *big.Int // raw LegacyDec
	CP, PP, Rej, Ver int64    // ns
	PC, IC           []*big.Int
}
type State struct {
	Prm   Params
	Items []Item
	Invs  []Inval
	Prfs  []Prf
	Deps  [][2]int
	Bals  [][]*big.Int // per principal id 0..len(Princ): one amount per denom
}

func vec(c sdk.Coins) []*big.Int {
	out := make([]*big.Int, len(Denoms))
	for i, d := range Denoms {
		out[i] = c.AmountOf(d).BigInt()
	}
	for _, coin := range c {
		known := false
		for _, d := range Denoms {
			known = known || d == coin.Denom
		}
		if !known {
			panic("untracked denom " + coin.Denom)
		}
	}
	return out
}

func decRaw(s string) *big.Int { return sdkmath.LegacyMustNewDecFromStr(s).BigInt() }

// Dump reads the projection from the committed state (uncached context).
func (w *World) Dump() State {
	ctx := w.H.Ctx()
	k := w.H.App.DaKeeper
	var s State
	p, err := k.Params.Get(ctx)
	if err != nil {
		panic(err)
	}
	s.Prm = Params{Thr: decRaw(p.ChallengeThreshold), RF: decRaw(p.ReplicationFactor),
		CP: int64(p.ChallengePeriod), PP: int64(p.ProofPeriod), Rej: int64(p.RejectedRemovalPeriod), Ver: int64(p.VerifiedRemovalPeriod),
		PC: vec(p.PublishDataCollateral), IC: vec(p.SubmitInvalidityCollateral)}
	items, err := k.GetAllPublishedData(ctx)
	if err != nil {
		panic(err)
	}
	for _, d := range items {
		s.Items = append(s.Items, Item{URI: uriID(d.MetadataUri), Status: int(d.Status), Ts: d.Timestamp.UnixNano(),
			N: len(d.ShardDoubleHashes), Parity: d.ParityShardCount, Publisher: w.ID(d.Publisher),
			PC: vec(d.PublishDataCollateral), IC: vec(d.SubmitInvalidityCollateral)})
	}
	sort.Slice(s.Items, func(i, j int) bool { return s.Items[i].URI < s.Items[j].URI })
	invs, err := k.GetAllInvalidities(ctx)
	if err != nil {
		panic(err)
	}
	for _, v := range invs {
		s.Invs = append(s.Invs, Inval{URI: uriID(v.MetadataUri), Sender: w.ID(v.Sender), Idx: v.Indices})
	}
	sort.Slice(s.Invs, func(i, j int) bool {
		if s.Invs[i].URI != s.Invs[j].URI {
			return s.Invs[i].URI < s.Invs[j].URI
		}
		return s.Invs[i].Sender < s.Invs[j].Sender
	})
	prfs, err := k.GetAllProofs(ctx)
	if err != nil {
		panic(err)
	}
	for _, v := range prfs {
		s.Prfs = append(s.Prfs, Prf{URI: uriID(v.MetadataUri), Val: w.ID(v.Sender), Idx: v.Indices})
	}
	sort.Slice(s.Prfs, func(i, j int) bool {
		if s.Prfs[i].URI != s.Prfs[j].URI {
			return s.Prfs[i].URI < s.Prfs[j].URI
		}
		return s.Prfs[i].Val < s.Prfs[j].Val
	})
	err = k.ProofDeputies.Walk(ctx, nil, func(val []byte, dep []byte) (bool, error) {
		s.Deps = append(s.Deps, [2]int{w.ID(sdk.AccAddress(val).String()), w.ID(sdk.AccAddress(dep).String())})
		return false, nil
	})
	if err != nil {
		panic(err)
	}
	sort.Slice(s.Deps, func(i, j int) bool { return s.Deps[i][0] < s.Deps[j][0] })
	for id := 0; id <= len(w.Princ); id++ {
		row := make([]*big.Int, len(Denoms))
		for j, d := range Denoms {
			row[j] = w.H.Bal(ctx, w.Addr(id), d).BigInt()
		}
		s.Bals = append(s.Bals, row)
	}
	return s
}

// ---------- Coq terms ----------

func zs64(xs []int64) string {
	out := make([]string, len(xs))
	for i, x := range xs {
		out[i] = emit.ZI(x)
	}
	return emit.List(out)
}
func zsBig(xs []*big.Int) string {
	out := make([]string, len(xs))
	for i, x := range xs {
		out[i] = emit.Z(x)
	}
	return emit.List(out)
}

func (s State) CoqD() string {
	var items, invs, prfs, deps []string
	for _, it := range s.Items {
		items = append(items, fmt.Sprintf("It %d %d %d %d %d %d %s %s", it.URI, it.Status, it.Ts, it.N, it.Parity, it.Publisher, zsBig(it.PC), zsBig(it.IC)))
	}
	for _, v := range s.Invs {
		invs = append(invs, fmt.Sprintf("Iv %d %d %s", v.URI, v.Sender, zs64(v.Idx)))
	}
	for _, v := range s.Prfs {
		prfs = append(prfs, fmt.Sprintf("Pf %d %d %s", v.URI, v.Val, zs64(v.Idx)))
	}
	for _, d := range s.Deps {
		deps = append(deps, fmt.Sprintf("(%d, %d)", d[0], d[1]))
	}
	p := s.Prm
	prm := fmt.Sprintf("(Pm %s %s %d %d %d %d %s %s)", emit.Z(p.Thr), emit.Z(p.RF), p.CP, p.PP, p.Rej, p.Ver, zsBig(p.PC), zsBig(p.IC))
	return fmt.Sprintf("(St %s %s %s %s %s)", prm, emit.List(items), emit.List(invs), emit.List(prfs), emit.List(deps))
}

func (s State) CoqB() string {
	rows := make([]string, len(s.Bals))
	for i, r := range s.Bals {
		rows[i] = zsBig(r)
	}
	return emit.List(rows)
}

// ---------- operations ----------

type OpKind int

const (
	OpPublish OpKind = iota
	OpInval
	OpProof
	OpReg
	OpUnreg
	OpEndBlock
)

func (k OpKind) String() string {
	return [...]string{"publish", "invalidity", "proof", "register-deputy", "unregister-deputy", "end-block"}[k]
}

type Op struct {
	Kind   OpKind
	Sender int
	URI    int
	N      int    // publish: number of shard hashes
	Parity uint64 // publish
	Idx    []int64
	Val    int      // proof: validator principal
	Proofs [][]byte // proof
	Deputy int      // register
	Up     int      // spelling flags (UpSender | UpValidator | UpDeputy)
	Dt     time.Duration
	// filled by Apply
	Now          int64
	Known, Bond  bool
	ParseOK, VOK []bool
	Res          int // 0 ok, -1 panic, else error class
	ErrText      string
}

var daErrs = []struct {
	e    error
	code int
}{
	{datypes.ErrNotInChallengePeriod, 1101}, {datypes.ErrChallengePeriodIsOver, 1102}, {datypes.ErrDataNotInChallenge, 1103},
	{datypes.ErrProofPeriodIsOver, 1104}, {datypes.ErrProofIndicesOverflow, 1105}, {datypes.ErrIndicesAndProofsMismatch, 1106},
	{datypes.ErrParityShardCountGTETotal, 1107}, {datypes.ErrInvalidIndices, 1108}, {datypes.ErrDataAlreadyExist, 1109},
	{datypes.ErrDataNotFound, 1110}, {datypes.ErrDeputyNotFound, 1111}, {datypes.ErrInvalidDeputy, 1112},
	{datypes.ErrProofNotFound, 1113}, {datypes.ErrInvalidityNotFound, 1114}, {datypes.ErrValidatorNotBonded, 1115},
	{datypes.ErrInvalidSigner, 1100},
}

// Classify maps an error to the class the model predicts: registered x/da errors by their
// code, insufficient funds = 5, a recovered panic = -1, anything else = 99. An error that is
// registered in the module under a code this table does not know is reported by its ABCI code.
func Classify(err error) int {
	if err == nil {
		return 0
	}
	if strings.HasPrefix(err.Error(), "panic:") {
		return -1
	}
	for _, d := range daErrs {
		if errors.Is(err, d.e) {
			return d.code
		}
	}
	if errors.Is(err, sdkerrors.ErrInsufficientFunds) {
		return 5
	}
	if c := abciCode(err); c != 0 {
		return c
	}
	return 99
}

// Apply executes the operation on the real application. Messages run in a
// cache context at the time of the block that is about to end (all-or-nothing, like baseapp);
// OpEndBlock runs a full FinalizeBlock+Commit at that time.
func (w *World) Apply(op *Op, blockTime time.Time) {
	op.Now = blockTime.UnixNano()
	ctx := w.H.CtxAt(blockTime)
	var err error
	sender := ""
	if op.Kind != OpEndBlock {
		sender = spell(w.Addr(op.Sender).String(), op.Up&UpSender != 0)
	}
	switch op.Kind {
	case OpPublish:
		hashes := make([][]byte, op.N)
		for i := range hashes {
			hashes[i] = w.Pool.HashAt(i)
		}
		err = apph.Tx(ctx, func(ctx sdk.Context) error {
			_, e := w.Srv.PublishData(ctx, &datypes.MsgPublishData{Sender: sender, MetadataUri: URI(op.URI),
				ParityShardCount: op.Parity, ShardDoubleHashes: hashes, DataSourceInfo: "verif"})
			return e
		})
	case OpInval:
		err = apph.Tx(ctx, func(ctx sdk.Context) error {
			_, e := w.Srv.SubmitInvalidity(ctx, &datypes.MsgSubmitInvalidity{Sender: sender, MetadataUri: URI(op.URI), Indices: op.Idx})
			return e
		})
	case OpProof:
		valAddr := sdk.ValAddress(w.Addr(op.Val))
		v, verr := w.H.App.StakingKeeper.Validator(ctx, valAddr)
		op.Known = verr == nil
		op.Bond = verr == nil && v.IsBonded()
		data, found, _ := w.H.App.DaKeeper.GetPublishedData(ctx, URI(op.URI))
		op.ParseOK, op.VOK = nil, nil
		for i, pb := range op.Proofs {
			var hash []byte
			if found && i < len(op.Idx) && op.Idx[i] >= 0 && op.Idx[i] < int64(len(data.ShardDoubleHashes)) {
				hash = data.ShardDoubleHashes[op.Idx[i]]
			}
			p, vok := w.Pool.Oracle(pb, hash)
			op.ParseOK = append(op.ParseOK, p)
			op.VOK = append(op.VOK, vok)
		}
		err = apph.Tx(ctx, func(ctx sdk.Context) error {
			_, e := w.Srv.SubmitValidityProof(ctx, &datypes.MsgSubmitValidityProof{Sender: sender,
				ValidatorAddress: spell(valAddr.String(), op.Up&UpValidator != 0), MetadataUri: URI(op.URI), Indices: op.Idx, Proofs: op.Proofs})
			return e
		})
	case OpReg:
		err = apph.Tx(ctx, func(ctx sdk.Context) error {
			_, e := w.Srv.RegisterProofDeputy(ctx, &datypes.MsgRegisterProofDeputy{Sender: sender, DeputyAddress: spell(w.Addr(op.Deputy).String(), op.Up&UpDeputy != 0)})
			return e
		})
	case OpUnreg:
		err = apph.Tx(ctx, func(ctx sdk.Context) error {
			_, e := w.Srv.UnregisterProofDeputy(ctx, &datypes.MsgUnregisterProofDeputy{Sender: sender})
			return e
		})
	case OpEndBlock:
		dt := blockTime.Sub(w.H.Time)
		_, err = w.H.Block(dt, nil)
	}
	op.Res = Classify(err)
	if err != nil {
		op.ErrText = err.Error()
		if len(op.ErrText) > 160 {
			op.ErrText = op.ErrText[:160]
		}
	}
}

func bools(xs, ys []bool) string {
	out := make([]string, len(xs))
	for i := range xs {
		out[i] = fmt.Sprintf("(%s, %s)", emit.Bool(xs[i]), emit.Bool(ys[i]))
	}
	return emit.List(out)
}

func (op Op) Coq() string {
	switch op.Kind {
	case OpPublish:
		return fmt.Sprintf("(OPublish %d %d %d %d)", op.Sender, op.URI, op.N, op.Parity)
	case OpInval:
		return fmt.Sprintf("(OInval %d %d %s)", op.Sender, op.URI, zs64(op.Idx))
	case OpProof:
		return fmt.Sprintf("(OProof %d %d %d %s %s %s %s)", op.Sender, op.Val, op.URI, zs64(op.Idx), bools(op.ParseOK, op.VOK), emit.Bool(op.Known), emit.Bool(op.Bond))
	case OpReg:
		return fmt.Sprintf("(OReg %d %d)", op.Sender, op.Deputy)
	case OpUnreg:
		return fmt.Sprintf("(OUnreg %d)", op.Sender)
	default:
		return "OEndBlock"
	}
}

func (op Op) Info() map[string]any {
	m := map[string]any{"kind": op.Kind.String(), "now_ns": op.Now, "result": op.Res}
	if op.Up != 0 {
		m["upper_case_fields"] = op.Up // 1 sender, 2 validator, 4 deputy
	}
	if op.ErrText != "" {
		m["err"] = op.ErrText
	}
	switch op.Kind {
	case OpPublish:
		m["sender"], m["uri"], m["shards"], m["parity"] = op.Sender, op.URI, op.N, op.Parity
	case OpInval:
		m["sender"], m["uri"], m["indices"] = op.Sender, op.URI, op.Idx
	case OpProof:
		m["sender"], m["validator"], m["uri"], m["indices"], m["parse_ok"], m["verify_ok"], m["bonded"] = op.Sender, op.Val, op.URI, op.Idx, op.ParseOK, op.VOK, op.Bond
	case OpReg:
		m["sender"], m["deputy"] = op.Sender, op.Deputy
	case OpUnreg:
		m["sender"] = op.Sender
	}
	return m
}

// CaseTerm renders one observed step as a term of type da_case.
func CaseTerm(pre State, op Op, post State) string {
	res := fmt.Sprintf("%d", op.Res)
	if op.Res < 0 {
		res = fmt.Sprintf("(%d)", op.Res)
	}
	return fmt.Sprintf("Case %s %s %s %d %s %s %s", pre.CoqD(), pre.CoqB(), op.Coq(), op.Now, res, post.CoqD(), post.CoqB())
}

type coder interface {
	ABCICode() uint32
	Codespace() string
}

func abciCode(err error) int {
	var c coder
	if errors.As(err, &c) && c.Codespace() == datypes.ModuleName {
		return int(c.ABCICode())
	}
	return 0
}
