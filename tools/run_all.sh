#!/bin/sh
# run_all.sh [tier] [props...]: run checks sequentially with per-property dev binaries, log summary
tier=${1:-quick}; shift
props=${@:-C01 C02 C03 C04 C05 C06 C07 C08 C09 C10 C11 C12 C13 C14 C15 C16 C17 C18 C19 C20}
for c in $props; do
  lc=$(echo $c | tr A-Z a-z)
  echo "=== $c $(date +%T)"
  VERIF_HARNESS_CMD=${VERIF_HARNESS_CMD_OVERRIDE:-dev_$lc} timeout 3000 ./check $c --tier $tier 2>&1 | grep -v "^WARNING conda" | grep -v "^KNOWN-FINDING" | tail -3
done
