(* C04 — Pool liquidity bookkeeping matches the set of open positions.
   Statements only; proofs in Amm/LiqInv.v, Amm/LiqSwap.v, Amm/LiqMonitor.v. *)
From Coq Require Import ZArith List Bool.
Import ListNotations.
From Sunrise Require Import Base.Outcome Base.Dec Amm.Math Amm.Pool Amm.LiqDefs Amm.LiqInv Amm.LiqSwap Amm.LiqMonitor Amm.Fees Amm.FeesSwap Amm.LiqCursor.
Local Open Scope Z_scope.

(* The invariant (LiqDefs.Inv): active liquidity = sum over positions containing the current tick;
   every initialised tick's gross/net = sums over positions bounded by it; a tick bounding no
   position is absent; accumulator shares = total liquidity; no position => pool reset. *)

Theorem C04_fresh_pool : forall fee tp n bp bf bu, Inv (fresh_pool fee tp n bp bf bu).
Proof. exact fresh_pool_inv. Qed.
Print Assumptions C04_fresh_pool.

Theorem C04_create_position : forall s sender lo up base quote mb mq s' r,
  Inv s -> create_position s sender lo up base quote mb mq = Ok (s', r) -> Inv s'.
Proof. exact create_position_inv. Qed.
Print Assumptions C04_create_position.

Theorem C04_decrease_liquidity : forall s sender pid l s' b q,
  Inv s -> decrease_liquidity s sender pid l = Ok (s', b, q) -> Inv s'.
Proof. exact decrease_liquidity_inv. Qed.
Print Assumptions C04_decrease_liquidity.

Theorem C04_increase_liquidity : forall s sender pid ab aq mb mq s' r,
  Inv s -> increase_liquidity s sender pid ab aq mb mq = Ok (s', r) -> Inv s'.
Proof. exact increase_liquidity_inv. Qed.
Print Assumptions C04_increase_liquidity.

(* a swap never changes positions, tick gross/net, the set of initialised ticks or the shares *)
Theorem C04_swap_bookkeeping : forall s ei di do_ sp fe s' i o,
  Sorted.StronglySorted tick_lt (a_ticks s) ->
  swap s ei di do_ sp fe = Ok (s', i, o) ->
  a_positions s' = a_positions s /\ a_next_id s' = a_next_id s /\ a_acc_shares s' = a_acc_shares s /\
  same_shape (a_ticks s) (a_ticks s').
Proof. exact swap_bookkeeping. Qed.
Print Assumptions C04_swap_bookkeeping.

(* crossing an initialised tick changes the active liquidity by exactly liquidity_net *)
Theorem C04_cross_up : forall ps cur t,
  cur < t ->
  Forall (fun p => pos_lower p < pos_upper p /\ ~ (cur < pos_lower p < t) /\ ~ (cur < pos_upper p < t)) ps ->
  active ps t = active ps cur + net_at ps t.
Proof. exact active_cross_up. Qed.
Print Assumptions C04_cross_up.
Theorem C04_cross_down : forall ps cur t,
  t <= cur ->
  Forall (fun p => pos_lower p < pos_upper p /\ ~ (t < pos_lower p <= cur) /\ ~ (t < pos_upper p <= cur)) ps ->
  active ps (t - 1) = active ps cur - net_at ps t.
Proof. exact active_cross_down. Qed.
Print Assumptions C04_cross_down.

(* every operation of the state machine preserves the invariant; for swaps under the explicit
   hypothesis that the recomputed cursor is consistent (see LiqSwap.cursor_consistent):
   that part of the property is PARTIAL *)
Theorem C04_step_partial : forall s o, Inv s -> swap_side s o -> Inv (fst (step s o)).
Proof. exact step_inv. Qed.
Print Assumptions C04_step_partial.

(* the same for a swap, with the hypothesis reduced to the tick<->price conversion: every tick the
   loop recomputes from a price lies in the bucket it was walking (Fees.cursor_ok), plus the
   accumulator well-formedness FeeWF (an invariant of every operation, C06_step_preserves_wf) and a
   non-zero final price/tick pair *)
Theorem C04_swap_cursor_partial : forall s ei din dout specified s' i o,
  Inv s -> FeeWF s -> swap_cursor_ok s ei din specified ->
  swap s ei din dout specified true = Ok (s', i, o) ->
  has_position (a_pool s') = true ->
  Inv s'.
Proof. exact swap_inv_cursor. Qed.
Print Assumptions C04_swap_cursor_partial.

Theorem C04_reach_partial : forall ops s, Inv s -> sides s ops -> Inv (run s ops).
Proof. exact reach_inv. Qed.
Print Assumptions C04_reach_partial.

(* histories without swaps: unconditional, any length *)
Theorem C04_reach_positions : forall ops s, Inv s -> forallb no_swap ops = true -> Inv (run s ops).
Proof. exact reach_inv_positions. Qed.
Print Assumptions C04_reach_positions.

(* the run-time monitor demands no more than the invariant *)
Theorem C04_monitor_complete : forall s, Inv s -> liq_inv_b s = true.
Proof. exact liq_inv_b_complete. Qed.
Print Assumptions C04_monitor_complete.

(* the full statement of the property for the record (clause (3) and the swap cursor are not proved
   for arbitrary tick parameters; both are checked on every implementation state by the monitors) *)
Definition C04_full : Prop :=
  forall ops s, Inv s -> Inv (run s ops).

(* regression: before the fix the reset kept the active liquidity *)
Example C04_reset_prefix_kept_liquidity :
  p_liq (reset_pool_prefix {| p_fee := 0; p_tp := {| price_ratio := 0; base_offset := 0 |}; p_tick := 5; p_liq := 7; p_sqrt := 9 |}) = 7
  /\ p_liq (reset_pool {| p_fee := 0; p_tp := {| price_ratio := 0; base_offset := 0 |}; p_tick := 5; p_liq := 7; p_sqrt := 9 |}) = 0.
Proof. split; reflexivity. Qed.

(* non-vacuity: a reachable non-trivial state (first position created on a fresh pool) *)
Example C04_nonvacuous :
  let s0 := fresh_pool 3000000000000000 {| price_ratio := 1000100000000000000; base_offset := 500000000000000000 |} 0
              vzero vzero [1000000000; 1000000000; 0; 0] in
  exists s1 r, create_position s0 1 (-100) 100 1000000 1000000 0 0 = Ok (s1, r) /\
               a_positions s1 <> [] /\ 0 < p_liq (a_pool s1).
Proof. vm_compute. eexists. eexists. split; [reflexivity|]. split; [discriminate|reflexivity]. Qed.
