(* x/swap/types/ibc.go and route.go: the untrusted-input path of the swap IBC middleware.

     DecodeSwapMetadata   memo string -> generic JSON (map[string]interface{}) -> jsonpb
     SwapMetadata.Validate, ForwardMetadata.Validate, Route.Validate (validateRecursive,
     mustNotReusePool / checkNotReusePool), and the head of IBCMiddleware.OnRecvPacket.

   Go run-time panics are explicit [Panic] results: a failed unchecked type assertion
   [x.(map[string]interface{})], a nil-pointer dereference (absent sub-message, absent
   math.Int whose *big.Int is nil), an index out of range, the explicit [panic(...)] of
   mustNotReusePool and the deferred handler of Route.Validate that re-panics.

   Every function takes the set of repairs [fixes] that is applied to the tree:
   [pristine] is the code at the pinned commit, [patched] the code after
   notes/patches/C15-*.patch.  The totality theorems are about [patched]; the
   [..._refuted] lemmas exhibit the panicking inputs of [pristine] (all reproduced on the
   real code, see notes/C15.md) and stay as regression witnesses.

   Oracles (values observed on the running implementation, universally quantified in the
   theorems): the result of jsonpb.Unmarshal on the memo, math.LegacyNewDecFromStr on a
   weight string, the ibc-go host identifier validators. *)
From Coq Require Import ZArith List Bool.
Import ListNotations.
From Sunrise Require Import Base.Outcome Base.Check.
Local Open Scope Z_scope.
Local Open Scope res_scope.

(* ------------------------------------------------------------------ repairs *)
Record fixes := {
  fx_memo  : bool;   (* C15-memo-decode: comma-ok assertions, nil Swap after jsonpb *)
  fx_meta  : bool;   (* C15-metadata-validate: nil amount strategy / nil Int / required strategy *)
  fx_route : bool;   (* C15-route-validate: nil route / pool / series / parallel, reuse as error, denoms *)
}.
Definition pristine : fixes := {| fx_memo := false; fx_meta := false; fx_route := false |}.
Definition patched : fixes := {| fx_memo := true; fx_meta := true; fx_route := true |}.

(* error classes (only the class is compared with the implementation) *)
Definition E_JSON : Z := 1.        (* encoding/json rejected the memo *)
Definition E_NOSWAP : Z := 2.      (* no "swap" key / null *)
Definition E_SHAPE : Z := 3.       (* "swap" / "forward" is not an object (after repair) *)
Definition E_PB : Z := 4.          (* jsonpb rejected the memo *)
Definition E_ROUTE : Z := 5.       (* ErrInvalidRoute *)
Definition E_META : Z := 6.        (* amount strategy / forward metadata *)

(* ------------------------------------------------------------------ byte strings *)
Definition bytes := list Z.
Definition beq (a b : bytes) : bool := zlist_eqb a b.

Definition K_swap : bytes := [115; 119; 97; 112].                       (* "swap" *)
Definition K_forward : bytes := [102; 111; 114; 119; 97; 114; 100].     (* "forward" *)
Definition K_next : bytes := [110; 101; 120; 116].                      (* "next" *)

(* ------------------------------------------------------------------ JSON documents *)
(* What encoding/json hands to a map[string]interface{}: numbers become float64
   ([JNum fits] records whether strconv.ParseFloat accepted the literal: a number outside
   the float64 range makes Unmarshal fail), objects keep their keys in document order
   (a Go map keeps the last of duplicate keys). *)
Inductive json :=
| JNull
| JBool (b : bool)
| JNum (fits : bool)
| JStr (s : bytes)
| JArr (l : list json)
| JObj (kvs : list (bytes * json)).

Fixpoint nums_ok (j : json) : bool :=
  match j with
  | JNum fits => fits
  | JArr l => (fix go (l : list json) := match l with [] => true | x :: tl => nums_ok x && go tl end) l
  | JObj kvs => (fix go (l : list (bytes * json)) :=
                   match l with [] => true | (_, x) :: tl => nums_ok x && go tl end) kvs
  | _ => true
  end.

(* d[k] of a Go map built from the document: the last binding of k; None = absent *)
Fixpoint lookup (k : bytes) (kvs : list (bytes * json)) : option json :=
  match kvs with
  | [] => None
  | (k', v) :: tl =>
      match lookup k tl with
      | Some v' => Some v'
      | None => if beq k k' then Some v else None
      end
  end.

(* [x == nil] for an interface{} read from the map: absent key or JSON null *)
Definition is_nil (o : option json) : bool :=
  match o with None | Some JNull => true | _ => false end.

(* ------------------------------------------------------------------ routes *)
(* math.LegacyNewDecFromStr on a weight string: error, or the raw 10^18-scaled value *)
Inductive weight := WBad | WDec (raw : Z).

(* types.Route with its protobuf oneof; pointers that may be nil are options *)
Inductive route :=
| RNone (din dout : bytes)                                          (* Strategy == nil *)
| RPool (din dout : bytes) (pool : option Z)                        (* &Route_Pool{Pool}; None = nil *)
| RSeries (din dout : bytes) (present : bool) (rs : list route)     (* &Route_Series{Series}; present=false: nil *)
| RParallel (din dout : bytes) (present : bool) (rs : list route) (ws : list weight).

Definition r_din (r : route) : bytes :=
  match r with RNone d _ | RPool d _ _ | RSeries d _ _ _ | RParallel d _ _ _ _ => d end.
Definition r_dout (r : route) : bytes :=
  match r with RNone _ d | RPool _ d _ | RSeries _ d _ _ | RParallel _ d _ _ _ => d end.

(* sdk.ValidateDenom: [a-zA-Z][a-zA-Z0-9/:._-]{2,127} *)
Definition is_alpha (c : Z) : bool := ((65 <=? c) && (c <=? 90)) || ((97 <=? c) && (c <=? 122)).
Definition is_digit (c : Z) : bool := (48 <=? c) && (c <=? 57).
Definition is_denom_char (c : Z) : bool :=
  is_alpha c || is_digit c || (c =? 47) || (c =? 58) || (c =? 46) || (c =? 95) || (c =? 45).
Definition denom_ok (d : bytes) : bool :=
  match d with
  | [] => false
  | c :: tl => is_alpha c && forallb is_denom_char tl &&
               (2 <=? Z.of_nat (length tl)) && (Z.of_nat (length tl) <=? 127)
  end.

(* The loops of validateRecursive and of the reuse walk, over the function applied to each
   child (so that the recursive functions below are structural through [list route]). *)
Section Loops.
  Variable f : route -> res unit.
  (* series: every hop valid, input denom chained; returns the last output denom *)
  Fixpoint series_loop (l : list route) (cur : bytes) : res bytes :=
    match l with
    | [] => Ok cur
    | x :: tl =>
        let! _ := f x in
        if negb (beq (r_din x) cur) then Err E_ROUTE else series_loop tl (r_dout x)
    end.
  (* parallel: child valid, same denoms as the parent, Weights[i] parses and is positive *)
  Variables din dout : bytes.
  Fixpoint par_loop (l : list route) (w : list weight) : res unit :=
    match l with
    | [] => Ok tt
    | x :: tl =>
        let! _ := f x in
        if negb (beq (r_din x) din) then Err E_ROUTE else
        if negb (beq (r_dout x) dout) then Err E_ROUTE else
        match w with
        | [] => Panic                                   (* Weights[i], i out of range *)
        | WBad :: _ => Err E_ROUTE
        | WDec raw :: wtl => if raw <=? 0 then Err E_ROUTE else par_loop tl wtl
        end
    end.
End Loops.
Section ReuseLoop.
  Variable g : route -> list Z -> res (list Z).
  Fixpoint reuse_loop (l : list route) (seen : list Z) : res (list Z) :=
    match l with
    | [] => Ok seen
    | x :: tl => let! s := g x seen in reuse_loop tl s
    end.
End ReuseLoop.

(* ------------------------------------------------------------------ InspectRoute (shape) *)
(* Route.InspectRoute, reduced to the run-time panics of its own code: nil pointers
   (strategy.Pool dereferenced, strategy.Series.Routes, strategy.Parallel.Weights), sdk.NewCoin on a
   denom that is not a valid sdk denom, Weights[:len-1] with no weights, amountsExact[i]
   with more weights than routes, Quo(weightSum) with weightSum = 0.  The pool callback is
   an oracle; the walk below is the path on which every pool call succeeds (every other
   execution is a prefix of it followed by an error return).  Amount arithmetic (checked
   LegacyDec / Int overflow on absurd magnitudes) is not part of this model. *)
Section InspectLoop.
  Variable f : route -> res unit.
  Fixpoint inspect_loop (l : list route) : res unit :=
    match l with
    | [] => Ok tt
    | x :: tl => let! _ := f x in inspect_loop tl
    end.
End InspectLoop.

Definition wsum (ws : list weight) : Z :=
  fold_right (fun w acc => match w with WDec raw => raw + acc | WBad => acc end) 0 ws.
Definition has_bad (ws : list weight) : bool :=
  existsb (fun w => match w with WBad => true | _ => false end) ws.
Definition coins_ok (din dout : bytes) : res unit :=
  if denom_ok din && denom_ok dout then Ok tt else Panic.      (* generateResult: sdk.NewCoin x 2 *)

Fixpoint inspect (r : route) : res unit :=
  match r with
  | RNone _ _ => Err E_ROUTE                                       (* UnknownStrategyType *)
  | RPool _ _ None => Panic                                        (* strategy.Pool dereferenced *)
  | RPool din dout (Some _) => coins_ok din dout
  | RSeries din dout present rs =>
      if negb present then Panic else
      let! _ := inspect_loop inspect rs in
      coins_ok din dout
  | RParallel din dout present rs ws =>
      if negb present then Panic else
      if has_bad ws then Err E_ROUTE else                          (* LegacyNewDecFromStr error, first loop *)
      match ws with
      | [] => Panic                                                (* Weights[:length-1], length = 0 *)
      | _ =>
        if (length rs <? length ws)%nat then Panic                 (* amountsExact[length-1] *)
        else if (2 <=? length ws)%nat && (wsum ws =? 0) then Panic (* Quo(weightSum), division by zero *)
        else let! _ := inspect_loop inspect rs in coins_ok din dout
      end
  end.

Section Validate.
  Variable fx : fixes.

  (* validateRecursive.  The loops are as in the source: the series loop threads the
     expected input denom; the parallel loop indexes Weights[i] (out of range = Panic,
     excluded by the preceding length test). *)
  Fixpoint vrec (r : route) : res unit :=
    let! _ := (if fx_route fx
               then (if denom_ok (r_din r) && denom_ok (r_dout r) then Ok tt else Err E_ROUTE)
               else Ok tt) in
    match r with
    | RNone _ _ => Err E_ROUTE
    | RPool _ _ pool =>
        if fx_route fx then (match pool with None => Err E_ROUTE | Some _ => Ok tt end) else Ok tt
    | RSeries din dout present rs =>
        if negb present then (if fx_route fx then Err E_ROUTE else Panic) else
        match rs with
        | [] => Err E_ROUTE
        | _ =>
          let! last := series_loop vrec rs din in
          if negb (beq last dout) then Err E_ROUTE else Ok tt
        end
    | RParallel din dout present rs ws =>
        if negb present then (if fx_route fx then Err E_ROUTE else Panic) else
        match rs with
        | [] => Err E_ROUTE
        | _ =>
          if negb (Nat.eqb (length rs) (length ws)) then Err E_ROUTE else
          par_loop vrec din dout rs ws
        end
    end.

  (* mustNotReusePool (pristine: panics) / checkNotReusePool (patched: returns an error).
     [seen] is the set of pool ids visited so far, threaded in visiting order. *)
  Definition mem (x : Z) (l : list Z) : bool := existsb (Z.eqb x) l.
  Fixpoint reuse (r : route) (seen : list Z) : res (list Z) :=
    match r with
    | RNone _ _ => Ok seen
    | RPool _ _ None => Panic                                     (* strategy.Pool.PoolId, Pool == nil *)
    | RPool _ _ (Some id) =>
        if mem id seen then (if fx_route fx then Err E_ROUTE else Panic) else Ok (id :: seen)
    | RSeries _ _ present rs | RParallel _ _ present rs _ =>
        if negb present then Panic else
        reuse_loop reuse rs seen
    end.

  (* Route.Validate on a *Route (None = nil pointer).  In the pristine code the deferred
     handler does [r.(error)] on a recovered string and panics again in every case, so a
     panic of mustNotReusePool always leaves Validate as a panic. *)
  Definition route_validate (r : option route) : res unit :=
    match r with
    | None => if fx_route fx then Err E_ROUTE else Panic          (* route.Strategy, route == nil *)
    | Some r =>
        let! _ := vrec r in
        let! _ := reuse r [] in
        Ok tt
    end.

  (* ---------------------------------------------------------------- metadata *)
  (* ForwardMetadata.Validate: receiver non-empty, host.PortIdentifierValidator,
     host.ChannelIdentifierValidator (oracles) *)
  Record fwd := { fw_receiver_empty : bool; fw_port_ok : bool; fw_chan_ok : bool }.
  Definition fwd_validate (f : fwd) : res unit :=
    if fw_receiver_empty f then Err E_META
    else if negb (fw_port_ok f) then Err E_META
    else if negb (fw_chan_ok f) then Err E_META
    else Ok tt.

  (* the amount_strategy oneof: wrapper present, then the inner pointer, then the Int *)
  Inductive amt :=
  | ANone                                                         (* oneof not set *)
  | AIn (inner : option (option Z))                               (* ExactAmountIn nil? / MinAmountOut nil? *)
  | AOut (inner : option (option Z * option fwd)).                (* ExactAmountOut nil? / (AmountOut, Change) *)

  Record swap_meta := { sm_route : option route; sm_amt : amt; sm_forward : option fwd }.

  Definition amt_validate (a : amt) : res unit :=
    match a with
    | ANone => if fx_meta fx then Err E_META else Ok tt
    | AIn None => if fx_meta fx then Err E_META else Panic        (* nil.MinAmountOut *)
    | AIn (Some None) => if fx_meta fx then Err E_META else Panic (* Int{nil}.IsPositive() *)
    | AIn (Some (Some z)) => if 0 <? z then Ok tt else Err E_META
    | AOut None => if fx_meta fx then Err E_META else Panic       (* nil.Change *)
    | AOut (Some (ao, change)) =>
        let! _ := (if fx_meta fx
                   then (match ao with
                         | None => Err E_META
                         | Some z => if 0 <? z then Ok tt else Err E_META
                         end)
                   else Ok tt) in
        match change with None => Ok tt | Some f => fwd_validate f end
    end.

  Definition meta_validate (m : swap_meta) : res unit :=
    let! _ := route_validate (sm_route m) in
    let! _ := amt_validate (sm_amt m) in
    match sm_forward m with None => Ok tt | Some f => fwd_validate f end.

  (* ---------------------------------------------------------------- decode *)
  (* jsonpb.Unmarshal(memo, &PacketMetadata{}): error, or the decoded message whose Swap
     pointer may be nil *)
  Inductive pb_res := PbErr | PbOk (swap : option swap_meta).

  (* DecodeSwapMetadata.  [doc] = None when encoding/json rejects the memo (syntax error,
     or a top-level value that is neither an object nor null).  On success the decoded
     metadata is returned together with "Forward.Next was filled from the memo". *)
  Definition decode (doc : option json) (pb : pb_res) : res (swap_meta * bool) :=
    match doc with
    | None => Err E_JSON
    | Some j =>
      if negb (nums_ok j) then Err E_JSON else
      let after (has_next : bool) : res (swap_meta * bool) :=
        match pb with
        | PbErr => Err E_PB
        | PbOk None => if fx_memo fx then Err E_NOSWAP else Panic      (* m.Swap.Forward, m.Swap == nil *)
        | PbOk (Some m) =>
            Ok (m, match sm_forward m with Some _ => has_next | None => false end)
        end in
      match j with
      | JNull => Err E_NOSWAP                                     (* nil map: d["swap"] == nil *)
      | JObj top =>
          match lookup K_swap top with
          | None | Some JNull => Err E_NOSWAP
          | Some (JObj sw) =>
              match lookup K_forward sw with
              | None | Some JNull => after false
              | Some (JObj fw) => after (negb (is_nil (lookup K_next fw)))
              | Some _ => if fx_memo fx then Err E_SHAPE else Panic   (* swap["forward"].(map...) *)
              end
          | Some _ => if fx_memo fx then Err E_SHAPE else Panic       (* d["swap"].(map...) *)
          end
      | _ => Err E_JSON                                           (* cannot unmarshal into a map *)
      end
    end.

  (* ---------------------------------------------------------------- OnRecvPacket head *)
  (* IBCMiddleware.OnRecvPacket up to the point where funds are received:
       packet data not a FungibleTokenPacketData -> pass the packet down the stack
       memo does not decode                       -> pass the packet down the stack
       metadata invalid / route denom mismatch    -> error acknowledgement
       otherwise                                  -> continue (receive funds, swap, forward) *)
  Inductive recv := RecvPassDown | RecvErrAck | RecvContinue.

  Definition recv_head (data_ok : bool) (doc : option json) (pb : pb_res) (denom_matches : bool)
    : res recv :=
    if negb data_ok then Ok RecvPassDown else
    match decode doc pb with
    | Panic => Panic
    | Err _ => Ok RecvPassDown
    | Ok (m, _) =>
        match meta_validate m with
        | Panic => Panic
        | Err _ => Ok RecvErrAck
        | Ok _ =>
            match sm_route m with
            | None => Panic                                       (* metadata.Route.DenomIn, Route == nil *)
            | Some _ => if denom_matches then Ok RecvContinue else Ok RecvErrAck
            end
        end
    end.
End Validate.
