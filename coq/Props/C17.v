(* C17 — Gauge voting counts each bonded token once; emissions follow gauge weights.
   Only statements, each closed by [exact]; proofs live in Stake/TallyCoreProofs.v and
   Stake/GaugeProofs.v. Models: Stake/TallyCore.v (the two-pass tally), Stake/Gauge.v
   (x/liquidityincentive Tally, MsgVoteGauge, CreateEpoch / EndBlocker / BeginBlocker).
   [begin_block] is the BeginBlocker with liquiditypool's AllocateIncentive repaired by
   notes/patches/C17-allocate-incentive-zero-liquidity.patch; [begin_block_orig] the pinned commit. *)
From Coq Require Import ZArith List Lia.
Import ListNotations.
From Sunrise Require Import Base.Outcome Base.Dec Stake.TallyCore Stake.TallyCoreProofs Stake.Gauge Stake.GaugeProofs.
Local Open Scope Z_scope.

(* ---- every bonded token counted at most once; the total never exceeds the bonded power ----
   graph_ok: distinct validators with tokens >= 0 and shares > 0; every vote has at most W
   non-negative weights summing to <= 1 (what MsgVoteGauge stores, C17_weights_le_one_always) and
   non-negative delegation shares; the shares the voters hold at a validator are part of its
   delegator shares (staking). The gauge counts are all >= 0 and add up to at most the bonded
   tokens of the listed validators: the rounding terms (slack1 + #validators * (1 + W), each worth
   10^-18 token) can never amount to a token. *)
Theorem C17_each_token_once_total_le_bonded : forall W vals bs bonded l,
  0 <= W -> graph_ok W vals bs ->
  slack1 bs + len vals * (1 + W) < P ->
  gauge_tally vals bs bonded = Some l ->
  Forall (fun kv => 0 <= snd kv) l /\ zsum (map snd l) <= tokens vals.
Proof. exact total_le_bonded. Qed.
Print Assumptions C17_each_token_once_total_le_bonded.

(* the same before truncation, with the slack explicit (any number of terms) *)
Theorem C17_results_le_tokens : forall W vals bs tot res vis,
  0 <= W -> graph_ok W vals bs ->
  core (map init_vi vals) [] bs = Some (tot, res, vis) ->
  rnn res /\ rsum res <= tokens vals * P + slack1 bs + len vals * (1 + W).
Proof. exact core_total_le. Qed.
Print Assumptions C17_results_le_tokens.

(* ---- a delegator who votes overrides their validator for their own stake ---- *)
(* pass 1: the voter's weights are applied to the tokens behind the voter's shares, and the same
   shares are deducted from the validator *)
Theorem C17_delegation_counted_with_voter_weights : forall w vis res tot vid sh vis' res' tot' vi,
  deleg_step w (vis, res, tot) (vid, sh) = Some (vis', res', tot') -> find_vi vid vis = Some vi ->
  apply_w (ppower sh (vi_tok vi) (vi_sh vi)) w res = Some res' /\
  tot' = tot + ppower sh (vi_tok vi) (vi_sh vi) /\
  vis' = upd_vi (set_ded vi (vi_ded vi + sh)) vis.
Proof. exact deleg_step_power. Qed.
Print Assumptions C17_delegation_counted_with_voter_weights.

(* pass 2: a validator's own weights reach only the shares none of its delegators voted with *)
Theorem C17_delegator_overrides_validator : forall vals bs res0 vis res tot,
  NoDup (map v_id vals) ->
  phase1 bs (map init_vi vals, res0, 0) = Some (vis, res, tot) ->
  Forall2 (fun v vi =>
    vi_id vi = v_id v /\ vi_ded vi = ded_of (v_id v) bs /\
    forall r t r' t', vi_vote vi <> [] -> val_step (r, t) vi = Some (r', t') ->
      let vp := ppower (v_sh v - ded_of (v_id v) bs) (v_tok v) (v_sh v) in
      apply_w vp (vi_vote vi) r = Some r' /\ t' = t + vp) vals vis.
Proof. exact delegator_overrides_validator. Qed.
Print Assumptions C17_delegator_overrides_validator.

(* ---- votes: weights sum to at most one, persist until replaced ---- *)
Theorem C17_weights_le_one : forall ok pools s a ws s',
  vote_gauge ok pools s a ws = Ok s' ->
  vget a s' = Some (weights_of ws) /\ wok (weights_of ws) /\
  (forall b, b <> a -> vget b s' = vget b s).
Proof. exact weights_le_one. Qed.
Print Assumptions C17_weights_le_one.

Theorem C17_weights_le_one_always : forall ops s, store_ok s -> store_ok (run_votes ops s).
Proof. exact weights_le_one_always. Qed.
Print Assumptions C17_weights_le_one_always.

(* after any history of vote messages the vote stored for [a] is the last accepted one of [a]
   (rejected messages and other senders change nothing; block processing never writes votes:
   end_block / begin_block do not take the vote store) *)
Theorem C17_votes_persist : forall a ops s, vget a (run_votes ops s) = last_vote a ops (vget a s).
Proof. exact votes_persist. Qed.
Print Assumptions C17_votes_persist.

(* ---- emission split ---- *)
(* the computed allocations add up to at most the balance when balance * #gauges < 2 * 10^18
   (the chain's supply cap is 10^15: C13) ... *)
Theorem C17_allocation_le_available : forall b total gs l,
  0 <= b -> counts_nonneg gs -> total_count gs 0 = Some total -> total <> 0 ->
  b * Z.of_nat (length gs) < 2 * P ->
  allocs b total gs = Some l -> zsum l <= b.
Proof. exact allocation_le_available. Qed.
Print Assumptions C17_allocation_le_available.

(* ... and not without that bound: LegacyDec.Quo rounds each weight half-even, six weights of 1/6
   sum to 1 + 2 * 10^-18, and at balance 3 * 10^18 the allocations exceed the balance by 6; the
   bank refuses the last send and the sixth pool gets nothing (reproduced on the real code:
   harness corpus "rounded-weights-sum-above-one") *)
Theorem C17_allocation_le_available_needs_bound_refuted :
  total_count six 0 = Some (6 * P) /\
  allocs (3 * P) (6 * P) six = Some (map (fun _ => 500000000000000001) six) /\
  3 * P < zsum (map (fun _ : gauge => 500000000000000001) six) /\
  begin_block (3 * P) (Some {| e_id := 1; e_start := 1; e_end := 1000; e_gauges := six |}) (fun _ => PoolOk)
    = Some ([500000000000000001; 500000000000000001; 500000000000000001; 500000000000000001; 500000000000000001; 0],
            499999999999999995).
Proof. exact allocation_le_available_needs_bound. Qed.
Print Assumptions C17_allocation_le_available_needs_bound_refuted.

(* whatever the balance and the pools: the fee collector pays out exactly what the pools receive,
   never more than it has, nothing negative *)
Theorem C17_emission_le_balance : forall rep b last status ts rem, 0 <= b ->
  begin_block_gen rep b last status = Some (ts, rem) ->
  0 <= rem /\ rem = b - zsum ts /\ Forall (fun t => 0 <= t) ts.
Proof. exact emission_le_balance. Qed.
Print Assumptions C17_emission_le_balance.

(* each allocation a of a gauge with count c (C = total count):
     a <= b*c/C + b/(2*10^18)   and   a > b*c/C - b/(2*10^18) - b/10^36 - 1 *)
Theorem C17_allocation_proportional : forall b total gs l,
  0 <= b -> counts_nonneg gs -> total_count gs 0 = Some total -> total <> 0 ->
  allocs b total gs = Some l ->
  let C := count_sum gs in
  Forall2 (fun g a => 0 <= a /\ 2 * C * P * a <= b * (2 * g_count g * P + C) /\
                      2 * P * P * b * g_count g < 2 * C * P * P * (a + 1) + C * b * (P + 2)) gs l.
Proof. exact allocation_proportional. Qed.
Print Assumptions C17_allocation_proportional.

(* when the computed allocations fit into what is left, pools that can take theirs get exactly it *)
Theorem C17_allocation_paid_when_it_fits : forall rep b total gs l rem,
  allocs b total gs = Some l -> Forall (fun a => 0 <= a) l -> zsum l <= rem ->
  allocate rep b total (map (fun g => (g, PoolOk)) gs) rem = Some (l, rem - zsum l).
Proof. exact allocate_exact. Qed.
Print Assumptions C17_allocation_paid_when_it_fits.

(* the pinned commit halts BeginBlock on a gauge pool with positions but no in-range liquidity
   (reproduced by a real FinalizeBlock: harness corpus "finalize-block-zero-in-range-liquidity") *)
Theorem C17_orig_begin_block_panics_refuted :
  let e := {| e_id := 1; e_start := 2; e_end := 7; e_gauges := [ {| g_prev := 0; g_pool := 0; g_count := 1000000 |} ] |} in
  begin_block_orig 1000 (Some e) (fun _ => PoolZeroLiq) = None /\
  begin_block 1000 (Some e) (fun _ => PoolZeroLiq) = Some ([0], 1000).
Proof. exact orig_begin_block_panics_on_zero_liquidity. Qed.
Print Assumptions C17_orig_begin_block_panics_refuted.

(* ---- epochs ---- *)
(* one EndBlocker either leaves the epochs alone or appends exactly one epoch: next id, starting at
   this block, not before the previous one ended; the oldest of three is dropped *)
Theorem C17_epoch_step : forall st h eb tally st', epochs_ok (s_epochs st) ->
  end_block st h eb tally = Ok st' ->
  epochs_ok (s_epochs st') /\
  (s_epochs st' = s_epochs st \/
   exists e, last_epoch (s_epochs st') = Some e /\ e_start e = h /\ e_end e = h + eb /\
     match last_epoch (s_epochs st) with
     | None => e_id e = 1 /\ s_epochs st' = [e]
     | Some le => e_id e = e_id le + 1 /\ e_end le <= h /\ s_epochs st' = [le; e]
     end).
Proof. exact epoch_step. Qed.
Print Assumptions C17_epoch_step.

(* invariant over all block histories (any heights, epoch lengths and tally outcomes): at most two
   epochs are stored, with consecutive ids, the later starting no earlier than the former ended *)
Theorem C17_epochs_contiguous_two_kept : forall bs st,
  epochs_ok (s_epochs st) -> epochs_ok (s_epochs (run_blocks bs st)).
Proof. exact epochs_contiguous_two_kept. Qed.
Print Assumptions C17_epochs_contiguous_two_kept.

(* ---- non-vacuity ---- *)
(* validator 1 (150 tokens / 100 shares) and its delegator 5 both vote, with overlapping pools and
   partial weights; validator 2 does not vote but delegator 5 holds shares there too *)
Definition nv_vals := [ {| v_id := 1; v_tok := 150000000; v_sh := 100000000 * P |}; {| v_id := 2; v_tok := 9000000; v_sh := 9 * P |} ].
Definition nv_ballots :=
  [ {| b_voter := 1; b_w := [(0, 700000000000000000); (3, 300000000000000000)]; b_dels := [(1, 20000000 * P)] |};
    {| b_voter := 5; b_w := [(3, 333333333333333333); (1, 500000000000000000)]; b_dels := [(1, 10000000 * P); (2, 3 * P)] |} ].
Example C17_nonvacuous :
  graph_ok 2 nv_vals nv_ballots /\ slack1 nv_ballots + len nv_vals * (1 + 2) < P /\
  gauge_tally nv_vals nv_ballots 159000000 = Some [(0, 94500000); (1, 9000000); (3, 46499999)] /\
  tokens nv_vals = 159000000 /\
  (* an emission that does not divide evenly *)
  begin_block 1000 (Some {| e_id := 1; e_start := 5; e_end := 10;
                            e_gauges := [ {| g_prev := 0; g_pool := 0; g_count := 94500000 |};
                                          {| g_prev := 0; g_pool := 1; g_count := 9000000 |};
                                          {| g_prev := 0; g_pool := 3; g_count := 46499999 |} ] |})
              (fun _ => PoolOk) = Some ([630; 60; 309], 1) /\
  (* epochs over three boundaries *)
  map e_id (s_epochs (run_blocks [ {| bi_height := 2; bi_epoch_blocks := 2; bi_tally := Ok [(0, 5)] |};
                                   {| bi_height := 3; bi_epoch_blocks := 2; bi_tally := Ok [(0, 5)] |};
                                   {| bi_height := 4; bi_epoch_blocks := 2; bi_tally := Ok [(0, 6); (1, 1)] |};
                                   {| bi_height := 6; bi_epoch_blocks := 2; bi_tally := Ok [(1, 7)] |} ]
                                 {| s_epochs := []; s_gauges := [] |})) = [2; 3].
Proof.
  split.
  { split; [repeat constructor; cbn; intuition lia|].
    split; [repeat constructor; cbn; lia|].
    split; [|repeat constructor; vm_compute; intuition discriminate].
    repeat constructor; vm_compute; intuition discriminate. }
  vm_compute. repeat split; reflexivity.
Qed.
