// Package c16: the governance tally installed by app/gov (custom
// CalculateVoteResultsAndVotingPowerFn) driven on real staking state of the running application.
//
// The staking graph is built with the real message servers: staking MsgDelegate /
// MsgUndelegate / MsgCreateValidator, x/shareclass MsgNonVotingDelegate, and the staking
// keeper's Slash / Jail (what x/slashing calls) to get exchange rates != 1 and validators
// outside the bonded set. Every case writes a set of weighted votes into the gov keeper's
// Votes collection (in a cache context), dumps what the function reads (bonded validators,
// delegations of the share-class account and of each voter, bonded totals) and calls the very
// function app.go installs.
package c16

import (
	"fmt"
	"math/big"
	"sort"
	"strings"
	"time"

	"cosmossdk.io/collections"
	sdkmath "cosmossdk.io/math"
	govkeeper "cosmossdk.io/x/gov/keeper"
	v1 "cosmossdk.io/x/gov/types/v1"
	stakingkeeper "cosmossdk.io/x/staking/keeper"
	stakingtypes "cosmossdk.io/x/staking/types"
	"github.com/cosmos/cosmos-sdk/crypto/keys/ed25519"
	sdk "github.com/cosmos/cosmos-sdk/types"

	appgov "github.com/sunriselayer/sunrise/app/gov"
	sckeeper "github.com/sunriselayer/sunrise/x/shareclass/keeper"
	sctypes "github.com/sunriselayer/sunrise/x/shareclass/types"

	"verifharness/apph"
	"verifharness/emit"
)

const (
	bond       = "uvrise"
	fee        = "urise"
	proposalID = uint64(77)
)

type world struct {
	h      *apph.H
	fn     govkeeper.CalculateVoteResultsAndVotingPowerFn
	sc     sdk.AccAddress
	ids    map[string]int64
	nextID int64
	stk    stakingtypes.MsgServer
	scs    sctypes.MsgServer
	nvals  int // validators ever created
	st     *emit.Stats
	log    []string // graph operations since the last case (replay info)
}

func newWorld(numVals, numAccts int, st *emit.Stats) *world {
	h := apph.New(apph.Options{NumAccounts: numAccts, NumValidators: numVals})
	w := &world{h: h, ids: map[string]int64{}, nextID: 1, st: st}
	w.fn = appgov.ProvideCalculateVoteResultsAndVotingPowerFn(h.App.AuthKeeper, h.App.StakingKeeper)
	w.sc = h.App.AuthKeeper.GetModuleAddress(sctypes.ModuleName)
	w.stk = stakingkeeper.NewMsgServerImpl(h.App.StakingKeeper)
	w.scs = sckeeper.NewMsgServerImpl(h.App.ShareclassKeeper)
	w.nvals = numVals
	return w
}

func (w *world) id(addr []byte) int64 {
	k := string(addr)
	if v, ok := w.ids[k]; ok {
		return v
	}
	w.ids[k] = w.nextID
	w.nextID++
	return w.ids[k]
}

func (w *world) note(format string, a ...any) { w.log = append(w.log, fmt.Sprintf(format, a...)) }

func (w *world) allVals() []stakingtypes.Validator {
	vs, err := w.h.App.StakingKeeper.GetAllValidators(w.h.Ctx())
	if err != nil {
		panic(err)
	}
	sort.Slice(vs, func(i, j int) bool { return vs[i].OperatorAddress < vs[j].OperatorAddress })
	return vs
}

func (w *world) valBytes(v stakingtypes.Validator) []byte {
	bz, err := w.h.App.StakingKeeper.ValidatorAddressCodec().StringToBytes(v.OperatorAddress)
	if err != nil {
		panic(err)
	}
	return bz
}

// ---- graph operations (all through the real code, all-or-nothing like a transaction) ----

func (w *world) delegate(from sdk.AccAddress, val string, amt sdkmath.Int) error {
	err := apph.Tx(w.h.Ctx(), func(ctx sdk.Context) error {
		_, e := w.stk.Delegate(ctx, &stakingtypes.MsgDelegate{DelegatorAddress: from.String(), ValidatorAddress: val, Amount: sdk.NewCoin(bond, amt)})
		return e
	})
	w.note("delegate %s -> %s %s err=%v", from, val, amt, err)
	return err
}

func (w *world) nonVoting(from sdk.AccAddress, val string, amt sdkmath.Int) error {
	err := apph.Tx(w.h.Ctx(), func(ctx sdk.Context) error {
		_, e := w.scs.NonVotingDelegate(ctx, &sctypes.MsgNonVotingDelegate{Sender: from.String(), ValidatorAddress: val, Amount: sdk.NewCoin(fee, amt)})
		return e
	})
	w.note("nonvoting-delegate %s -> %s %s err=%v", from, val, amt, err)
	return err
}

func (w *world) undelegate(from sdk.AccAddress, val string, amt sdkmath.Int) error {
	err := apph.Tx(w.h.Ctx(), func(ctx sdk.Context) error {
		_, e := w.stk.Undelegate(ctx, &stakingtypes.MsgUndelegate{DelegatorAddress: from.String(), ValidatorAddress: val, Amount: sdk.NewCoin(bond, amt)})
		return e
	})
	w.note("undelegate %s -> %s %s err=%v", from, val, amt, err)
	return err
}

func (w *world) slash(v stakingtypes.Validator, frac sdkmath.LegacyDec) error {
	cons, err := v.GetConsAddr()
	if err != nil {
		return err
	}
	err = apph.Tx(w.h.Ctx(), func(ctx sdk.Context) error {
		power := v.GetConsensusPower(w.h.App.StakingKeeper.PowerReduction(ctx))
		_, e := w.h.App.StakingKeeper.Slash(ctx, cons, w.h.Height, power, frac)
		return e
	})
	w.note("slash %s by %s err=%v", v.OperatorAddress, frac, err)
	return err
}

func (w *world) jail(v stakingtypes.Validator, unjail bool) error {
	cons, err := v.GetConsAddr()
	if err != nil {
		return err
	}
	err = apph.Tx(w.h.Ctx(), func(ctx sdk.Context) error {
		if unjail {
			return w.h.App.StakingKeeper.Unjail(ctx, cons)
		}
		return w.h.App.StakingKeeper.Jail(ctx, cons)
	})
	w.note("jail(unjail=%v) %s err=%v", unjail, v.OperatorAddress, err)
	return err
}

func (w *world) createValidator(op sdk.AccAddress, amt sdkmath.Int) error {
	pk := ed25519.GenPrivKeyFromSecret([]byte(fmt.Sprintf("verif-c16-newval-%d", w.nvals))).PubKey()
	valStr, err := w.h.App.StakingKeeper.ValidatorAddressCodec().BytesToString(op)
	if err != nil {
		return err
	}
	msg, err := stakingtypes.NewMsgCreateValidator(valStr, pk, sdk.NewCoin(bond, amt),
		stakingtypes.Description{Moniker: fmt.Sprintf("v%d", w.nvals)},
		stakingtypes.NewCommissionRates(sdkmath.LegacyNewDecWithPrec(1, 1), sdkmath.LegacyNewDecWithPrec(2, 1), sdkmath.LegacyNewDecWithPrec(1, 2)),
		sdkmath.OneInt())
	if err != nil {
		return err
	}
	err = apph.Tx(w.h.Ctx(), func(ctx sdk.Context) error {
		_, e := w.stk.CreateValidator(ctx, msg)
		return e
	})
	w.note("create-validator %s %s err=%v", valStr, amt, err)
	if err == nil {
		w.nvals++
	}
	return err
}

func (w *world) block(dt time.Duration) error {
	_, err := w.h.NextBlock(dt)
	w.note("block +%s err=%v", dt, err)
	return err
}

// ---- one tally case ----

type voteSpec struct {
	voter sdk.AccAddress
	opts  v1.WeightedVoteOptions
}

func raw(d sdkmath.LegacyDec) *big.Int { return d.BigInt() }

func pair(a, b string) string { return "(" + a + ", " + b + ")" }

type caseOut struct {
	term string
	info map[string]any
	// classification for the stats
	nonvotingOnVoting bool // non-voting stake > 0 on a validator that votes or whose delegators vote
	delegatorVotes    int
	validatorVotes    int
	scVoted           bool
	rateNotOne        bool
	unbondedSC        bool
	allNonVoting      bool
	outcome           string
	key               string
}

func (w *world) runCase(votes []voteSpec, tag string) caseOut {
	return w.runCaseP(proposalID, votes, tag, nil)
}

// runCaseP: votes == nil means "use the votes already stored for proposal pid". finalize, when
// given, runs after the observation (which happens in a discarded context) and returns the
// counts the real EndBlocker stored in the proposal's FinalTallyResult; they replace the
// Keeper.Tally counts of the case.
func (w *world) runCaseP(pid uint64, votes []voteSpec, tag string, finalize func() ([]string, string, error)) caseOut {
	proposalID := pid
	h := w.h
	ctx, _ := h.Ctx().CacheContext()
	sk := h.App.StakingKeeper
	gk := h.App.GovKeeper
	out := caseOut{info: map[string]any{"tag": tag, "graph_ops": w.log}}
	w.log = nil
	for _, v := range votes {
		if err := gk.Votes.Set(ctx, collections.Join(proposalID, v.voter), v1.NewVote(proposalID, v.voter.String(), v.opts, "")); err != nil {
			panic(err)
		}
	}
	// the map the gov keeper hands to the function (keeper/tally.go getCurrentValidators)
	validators := map[string]v1.ValidatorGovInfo{}
	var valTerms, valHuman []string
	if err := sk.IterateBondedValidatorsByPower(ctx, func(_ int64, v sdk.ValidatorI) bool {
		bz, err := sk.ValidatorAddressCodec().StringToBytes(v.GetOperator())
		if err != nil {
			panic(err)
		}
		validators[v.GetOperator()] = v1.NewValidatorGovInfo(bz, v.GetBondedTokens(), v.GetDelegatorShares(), sdkmath.LegacyZeroDec(), v1.WeightedVoteOptions{})
		valTerms = append(valTerms, fmt.Sprintf("{| v_id := %d; v_tok := %s; v_sh := %s |}", w.id(bz), emit.Z(v.GetBondedTokens().BigInt()), emit.Z(raw(v.GetDelegatorShares()))))
		valHuman = append(valHuman, fmt.Sprintf("%d:%s tokens=%s shares=%s", w.id(bz), v.GetOperator(), v.GetBondedTokens(), v.GetDelegatorShares()))
		if !v.GetDelegatorShares().Equal(sdkmath.LegacyNewDecFromInt(v.GetBondedTokens())) {
			out.rateNotOne = true
		}
		return false
	}); err != nil {
		panic(err)
	}
	dels := func(addr sdk.AccAddress) (terms, human []string, bonded []string) {
		if err := sk.IterateDelegations(ctx, addr, func(_ int64, d sdk.DelegationI) bool {
			bz, err := sk.ValidatorAddressCodec().StringToBytes(d.GetValidatorAddr())
			if err != nil {
				panic(err)
			}
			terms = append(terms, pair(emit.ZI(w.id(bz)), emit.Z(raw(d.GetShares()))))
			human = append(human, fmt.Sprintf("%d:%s", w.id(bz), d.GetShares()))
			if _, ok := validators[d.GetValidatorAddr()]; ok {
				bonded = append(bonded, d.GetValidatorAddr())
			}
			return false
		}); err != nil {
			panic(err)
		}
		return
	}
	scTerms, scHuman, scBondedVals := dels(w.sc)
	scOn := map[string]bool{}
	for _, v := range scBondedVals {
		scOn[v] = true
	}
	// share-class delegations with their validator's tokens/shares, for staking's GetDelegatorBonded
	var scAll []string
	if err := sk.IterateDelegations(ctx, w.sc, func(_ int64, d sdk.DelegationI) bool {
		bz, _ := sk.ValidatorAddressCodec().StringToBytes(d.GetValidatorAddr())
		v, err := sk.GetValidator(ctx, bz)
		if err == nil {
			scAll = append(scAll, fmt.Sprintf("(%s, %s, %s)", emit.Z(raw(d.GetShares())), emit.Z(v.Tokens.BigInt()), emit.Z(raw(v.DelegatorShares))))
			if !v.IsBonded() {
				out.unbondedSC = true
			}
		}
		return false
	}); err != nil {
		panic(err)
	}
	// votes in store order, each with the voter's delegations
	var ballots, ballotHuman []string
	touched := map[string]bool{} // validators that vote or have voting delegators
	rng := collections.NewPrefixedPairRange[uint64, sdk.AccAddress](proposalID)
	if err := gk.Votes.Walk(ctx, rng, func(key collections.Pair[uint64, sdk.AccAddress], vote v1.Vote) (bool, error) {
		voter := key.K2()
		var ws, wh []string
		for _, o := range vote.Options {
			wd, err := sdkmath.LegacyNewDecFromStr(o.Weight)
			if err != nil {
				panic(err)
			}
			ws = append(ws, pair(emit.ZI(int64(o.Option)), emit.Z(raw(wd))))
			wh = append(wh, fmt.Sprintf("%d:%s", o.Option, o.Weight))
		}
		dt, dh, db := dels(voter)
		ballots = append(ballots, fmt.Sprintf("{| b_voter := %d; b_w := %s; b_dels := %s |}", w.id(voter), emit.List(ws), emit.List(dt)))
		ballotHuman = append(ballotHuman, fmt.Sprintf("voter %d:%s opts=[%s] dels=[%s]", w.id(voter), voter, strings.Join(wh, " "), strings.Join(dh, " ")))
		if voter.Equals(w.sc) {
			out.scVoted = true
			return false, nil
		}
		valStr, _ := sk.ValidatorAddressCodec().BytesToString(voter)
		if _, ok := validators[valStr]; ok {
			out.validatorVotes++
			touched[valStr] = true
		}
		if len(db) > 0 {
			out.delegatorVotes++
			for _, v := range db {
				touched[v] = true
			}
		}
		return false, nil
	}); err != nil {
		panic(err)
	}
	for v := range touched {
		if scOn[v] {
			out.nonvotingOnVoting = true
		}
	}
	totalBonded, err := sk.TotalBondedTokens(ctx)
	if err != nil {
		panic(err)
	}
	scBonded, err := sk.GetDelegatorBonded(ctx, w.sc)
	if err != nil {
		panic(err)
	}
	out.allNonVoting = totalBonded.IsPositive() && scBonded.GTE(totalBonded)
	sumTok := sdkmath.ZeroInt()
	for _, v := range validators {
		sumTok = sumTok.Add(v.BondedTokens)
	}
	if !sumTok.Equal(totalBonded) {
		// a validator jailed earlier in the same block is out of the power index but its tokens
		// are still in the bonded pool until staking's EndBlocker
		out.info["bonded_pool_minus_sum_of_listed_validators"] = totalBonded.Sub(sumTok).String()
		w.st.Count("case:bonded-pool!=sum-of-listed-validators")
	}

	// the keeper path (Keeper.Tally uses the function installed by app.go), on its own copy
	kctx, _ := ctx.CacheContext()
	keeperCounts := "None"
	func() {
		defer func() {
			if r := recover(); r != nil {
				out.info["keeper_tally_panic"] = fmt.Sprint(r)
			}
		}()
		passes, burn, tr, err := gk.Tally(kctx, v1.Proposal{Id: proposalID, ProposalType: v1.ProposalType_PROPOSAL_TYPE_STANDARD})
		out.info["keeper_passes"], out.info["keeper_burns_deposit"] = passes, burn
		if err != nil {
			out.info["keeper_tally_err"] = err.Error()
			return
		}
		cs := []string{}
		for _, s := range []string{tr.YesCount, tr.AbstainCount, tr.NoCount, tr.NoWithVetoCount, tr.SpamCount} {
			x, ok := new(big.Int).SetString(s, 10)
			if !ok {
				panic("bad tally count " + s)
			}
			cs = append(cs, emit.Z(x))
		}
		keeperCounts = emit.Some(emit.List(cs))
		out.info["keeper_tally"] = tr.String()
	}()

	// the function itself
	obs := ""
	func() {
		defer func() {
			if r := recover(); r != nil {
				obs = "Panic"
				out.outcome = "panic"
				out.info["panic"] = fmt.Sprint(r)
			}
		}()
		tot, res, err := w.fn(ctx, *gk, proposalID, validators)
		if err != nil {
			obs = "(Err 1)"
			out.outcome = "err"
			out.info["err"] = err.Error()
			return
		}
		rs := []string{}
		rh := []string{}
		for _, o := range []v1.VoteOption{v1.OptionYes, v1.OptionAbstain, v1.OptionNo, v1.OptionNoWithVeto, v1.OptionSpam} {
			rs = append(rs, emit.Z(raw(res[o])))
			rh = append(rh, res[o].String())
		}
		obs = fmt.Sprintf("(Ok (%s, %s))", emit.Z(raw(tot)), emit.List(rs))
		out.outcome = "ok"
		out.info["total_voting_power"] = tot.String()
		out.info["results"] = rh
	}()
	left := 0
	if err := gk.Votes.Walk(ctx, rng, func(collections.Pair[uint64, sdk.AccAddress], v1.Vote) (bool, error) { left++; return false, nil }); err != nil {
		panic(err)
	}
	if finalize != nil {
		cs, status, err := finalize()
		if err != nil {
			out.info["end_to_end_error"] = err.Error()
			keeperCounts = "None"
		} else {
			keeperCounts = emit.Some(emit.List(cs))
			out.info["end_blocker_final_tally"] = cs
			out.info["proposal_status"] = status
		}
		// votes must be gone from the real store as well
		rctx := h.Ctx()
		left = 0
		if err := gk.Votes.Walk(rctx, rng, func(collections.Pair[uint64, sdk.AccAddress], v1.Vote) (bool, error) { left++; return false, nil }); err != nil {
			panic(err)
		}
	}
	out.info["validators"] = valHuman
	out.info["shareclass"] = fmt.Sprintf("%d:%s", w.id(w.sc), w.sc)
	out.info["shareclass_delegations"] = scHuman
	out.info["votes"] = ballotHuman
	out.info["total_bonded"] = totalBonded.String()
	out.info["shareclass_bonded(GetDelegatorBonded)"] = scBonded.String()
	out.term = fmt.Sprintf("{| gc_sc := %d; gc_vals := %s; gc_scdels := %s; gc_scall := %s; gc_ballots := %s; gc_bonded := %s; gc_scbonded := %s; gc_obs := %s; gc_left := %d; gc_keeper := %s |}",
		w.id(w.sc), emit.List(valTerms), emit.List(scTerms), emit.List(scAll), emit.List(ballots),
		emit.Z(totalBonded.BigInt()), emit.Z(scBonded.BigInt()), obs, left, keeperCounts)
	out.key = fmt.Sprintf("v%d/d%d/sc%v/r%v/n%d/%s", out.validatorVotes, out.delegatorVotes, out.scVoted, out.rateNotOne, len(scTerms), totalBonded.String()+"-"+scBonded.String())
	return out
}

// ---- generators ----

var one18 = new(big.Int).Exp(big.NewInt(10), big.NewInt(18), nil)

func decStr(rawv *big.Int) string {
	s := rawv.String()
	for len(s) < 19 {
		s = "0" + s
	}
	return s[:len(s)-18] + "." + s[len(s)-18:]
}

func genOptions(r *emit.Rand) v1.WeightedVoteOptions {
	all := []v1.VoteOption{v1.OptionYes, v1.OptionAbstain, v1.OptionNo, v1.OptionNoWithVeto, v1.OptionSpam}
	k := emit.Pick(r, 1, 1, 1, 2, 2, 3, 4, 5)
	// random distinct options
	perm := []int{0, 1, 2, 3, 4}
	for i := 4; i > 0; i-- {
		j := r.Intn(i + 1)
		perm[i], perm[j] = perm[j], perm[i]
	}
	// weights summing to exactly one
	cuts := []*big.Int{big.NewInt(0)}
	for i := 0; i < k-1; i++ {
		var c *big.Int
		switch r.Intn(3) {
		case 0:
			c = new(big.Int).Mul(big.NewInt(int64(1+r.Intn(9))), new(big.Int).Exp(big.NewInt(10), big.NewInt(17), nil))
		case 1:
			c = new(big.Int).Div(one18, big.NewInt(3))
		default:
			c = r.Big(one18)
		}
		cuts = append(cuts, c)
	}
	cuts = append(cuts, new(big.Int).Set(one18))
	sort.Slice(cuts, func(i, j int) bool { return cuts[i].Cmp(cuts[j]) < 0 })
	var out v1.WeightedVoteOptions
	for i := 0; i < k; i++ {
		wgt := new(big.Int).Sub(cuts[i+1], cuts[i])
		if wgt.Sign() == 0 {
			continue
		}
		out = append(out, &v1.WeightedVoteOption{Option: all[perm[i]], Weight: decStr(wgt)})
	}
	return out
}

func (w *world) voterPool() []sdk.AccAddress {
	var p []sdk.AccAddress
	for _, a := range w.h.Accts {
		p = append(p, a.Addr)
	}
	for _, v := range w.allVals() {
		p = append(p, sdk.AccAddress(w.valBytes(v)))
	}
	return p
}

func (w *world) genVotes(r *emit.Rand) []voteSpec {
	pool := w.voterPool()
	var vs []voteSpec
	seen := map[string]bool{}
	mode := r.Intn(6)
	for _, a := range pool {
		p := 2 // out of 4
		switch mode {
		case 0:
			p = 1
		case 1:
			p = 4
		case 2:
			p = 0
		}
		if r.Chance(p, 4) && !seen[string(a)] {
			seen[string(a)] = true
			vs = append(vs, voteSpec{a, genOptions(r)})
		}
	}
	if r.Chance(1, 3) {
		vs = append(vs, voteSpec{w.sc, genOptions(r)})
	}
	return vs
}

func (w *world) amount(r *emit.Rand) sdkmath.Int {
	switch r.Intn(6) {
	case 0:
		return sdkmath.NewInt(int64(1 + r.Intn(9)))
	case 1:
		return sdkmath.NewInt(1_000_000 * int64(1+r.Intn(50)))
	default:
		return sdkmath.NewIntFromBigInt(r.LogUniform(14))
	}
}

// one random graph operation
func (w *world) mutate(r *emit.Rand) {
	vals := w.allVals()
	v := vals[r.Intn(len(vals))]
	a := w.h.Accts[r.Intn(len(w.h.Accts))].Addr
	kind := r.Intn(20)
	var err error
	var name string
	switch {
	case kind < 6:
		name = "delegate"
		err = w.delegate(a, v.OperatorAddress, w.amount(r))
	case kind < 11:
		name = "nonvoting-delegate"
		err = w.nonVoting(a, v.OperatorAddress, w.amount(r))
	case kind < 13:
		name = "undelegate"
		// undelegate part (or all) of an existing delegation
		ds, _ := w.h.App.StakingKeeper.GetDelegatorDelegations(w.h.Ctx(), a, 50)
		if len(ds) == 0 {
			return
		}
		d := ds[r.Intn(len(ds))]
		vb, _ := w.h.App.StakingKeeper.ValidatorAddressCodec().StringToBytes(d.ValidatorAddress)
		vv, e := w.h.App.StakingKeeper.GetValidator(w.h.Ctx(), vb)
		if e != nil {
			return
		}
		tok := vv.TokensFromShares(d.Shares).TruncateInt()
		if !tok.IsPositive() {
			return
		}
		amt := tok
		if r.Chance(2, 3) {
			amt = sdkmath.NewIntFromBigInt(r.Big(tok.BigInt())).AddRaw(1)
			if amt.GT(tok) {
				amt = tok
			}
		}
		err = w.undelegate(a, d.ValidatorAddress, amt)
	case kind < 15:
		name = "slash"
		fr := emit.Pick(r, "0.01", "0.05", "0.333333333333333333", "0.000001", "0.5", "0.123456789012345678")
		if !v.IsBonded() {
			return
		}
		err = w.slash(v, sdkmath.LegacyMustNewDecFromStr(fr))
	case kind < 16:
		name = "jail"
		// keep at least two bonded validators
		nb := 0
		for _, x := range vals {
			if x.IsBonded() && !x.Jailed {
				nb++
			}
		}
		if v.Jailed {
			err = w.jail(v, true)
		} else if nb > 2 {
			err = w.jail(v, false)
		} else {
			return
		}
	case kind < 17:
		name = "create-validator"
		// an account that is not yet an operator
		for _, acc := range w.h.Accts {
			bz := []byte(acc.Addr)
			if _, e := w.h.App.StakingKeeper.GetValidator(w.h.Ctx(), bz); e != nil {
				err = w.createValidator(acc.Addr, w.amount(r).AddRaw(1_000_000))
				break
			}
		}
	default:
		name = "block"
		err = w.block(time.Duration(1+r.Intn(30)) * time.Second)
	}
	if err != nil {
		w.st.Count("graph:" + name + ":err")
	} else {
		w.st.Count("graph:" + name + ":ok")
	}
}

func (w *world) record(cf *emit.CasesFile, c caseOut) {
	cf.Add(c.term)
	w.st.Info(c.info)
	w.st.Evaluations++
	w.st.Count("tally:" + c.outcome)
	if c.scVoted {
		w.st.Count("case:shareclass-account-voted")
	}
	if c.rateNotOne {
		w.st.Count("case:some-validator-tokens!=shares")
	}
	if c.unbondedSC {
		w.st.Count("case:nonvoting-stake-on-unbonded-validator")
	}
	if c.allNonVoting {
		w.st.Count("case:all-bonded-stake-nonvoting")
	}
	if c.validatorVotes > 0 {
		w.st.Count("case:validator-voted")
	}
	if c.delegatorVotes > 0 {
		w.st.Count("case:delegator-voted")
	}
	if c.nonvotingOnVoting && c.delegatorVotes > 0 {
		w.st.Nontriv(c.key)
		w.st.Count("case:nontrivial")
		w.st.Sample(c.info)
	}
}

// corpus: the witnesses of the three turnout defects of the pinned commit, built on real state.
func corpus(cf *emit.CasesFile, st *emit.Stats) error {
	yes := v1.WeightedVoteOptions{&v1.WeightedVoteOption{Option: v1.OptionYes, Weight: "1.000000000000000000"}}
	// (a) shares subtracted again: one validator at rate 1 (created by an account), 60 voting, 40 non-voting
	{
		w := newWorld(1, 4, st)
		defer w.h.Close()
		op := w.h.Accts[1].Addr
		if err := w.createValidator(op, sdkmath.NewInt(60_000_000)); err != nil {
			return fmt.Errorf("corpus a: %w", err)
		}
		if err := w.block(time.Second); err != nil {
			return err
		}
		valStr, _ := w.h.App.StakingKeeper.ValidatorAddressCodec().BytesToString(op)
		if err := w.nonVoting(w.h.Accts[2].Addr, valStr, sdkmath.NewInt(40_000_000)); err != nil {
			return fmt.Errorf("corpus a: %w", err)
		}
		if err := w.block(time.Second); err != nil {
			return err
		}
		w.record(cf, w.runCase([]voteSpec{{op, yes}}, "corpus:turnout-subtracts-shares-again"))
		w.record(cf, w.runCase([]voteSpec{{op, yes}, {w.sc, yes}}, "corpus:shareclass-vote-discarded"))
		// more than half of the bonded stake non-voting and every voter says yes: see keeper_passes
		if err := w.nonVoting(w.h.Accts[2].Addr, valStr, sdkmath.NewInt(30_000_000)); err != nil {
			return fmt.Errorf("corpus a: %w", err)
		}
		w.record(cf, w.runCase([]voteSpec{{op, yes}, {w.h.Accts[0].Addr, yes}}, "corpus:unanimous-yes-with-majority-nonvoting"))
	}
	// (b) all bonded stake non-voting: the only voting delegation leaves
	{
		w := newWorld(1, 3, st)
		defer w.h.Close()
		v := w.allVals()[0]
		if err := w.nonVoting(w.h.Accts[1].Addr, v.OperatorAddress, sdkmath.NewInt(5_000_000)); err != nil {
			return fmt.Errorf("corpus b: %w", err)
		}
		if err := w.undelegate(w.h.Accts[0].Addr, v.OperatorAddress, sdkmath.NewInt(1_000_000)); err != nil {
			return fmt.Errorf("corpus b: %w", err)
		}
		if err := w.block(time.Second); err != nil {
			return err
		}
		w.record(cf, w.runCase([]voteSpec{{w.h.Accts[2].Addr, yes}}, "corpus:all-bonded-stake-nonvoting"))
	}
	// (c) non-voting stake on a jailed validator is subtracted from the bonded total
	{
		w := newWorld(2, 4, st)
		defer w.h.Close()
		vs := w.allVals()
		for _, v := range vs {
			if err := w.nonVoting(w.h.Accts[1].Addr, v.OperatorAddress, sdkmath.NewInt(3_000_000)); err != nil {
				return fmt.Errorf("corpus c: %w", err)
			}
		}
		if err := w.delegate(w.h.Accts[2].Addr, vs[0].OperatorAddress, sdkmath.NewInt(2_000_000)); err != nil {
			return fmt.Errorf("corpus c: %w", err)
		}
		if err := w.jail(vs[1], false); err != nil {
			return fmt.Errorf("corpus c: %w", err)
		}
		if err := w.block(time.Second); err != nil {
			return err
		}
		w.record(cf, w.runCase([]voteSpec{{w.h.Accts[2].Addr, yes}, {w.h.Accts[0].Addr, yes}}, "corpus:nonvoting-stake-on-jailed-validator"))
	}
	return nil
}

// endToEnd: a real proposal (MsgSubmitProposal with the minimum deposit), real MsgVote /
// MsgVoteWeighted, then a real block that ends the voting period: gov's EndBlocker tallies with
// whatever function the keeper holds and stores FinalTallyResult.
func endToEnd(cf *emit.CasesFile, st *emit.Stats) error {
	w := newWorld(1, 5, st)
	defer w.h.Close()
	h := w.h
	gk := h.App.GovKeeper
	gsrv := govkeeper.NewMsgServerImpl(gk)
	op := h.Accts[1].Addr
	if err := w.createValidator(op, sdkmath.NewInt(60_000_000)); err != nil {
		return err
	}
	if err := w.block(time.Second); err != nil {
		return err
	}
	valStr, _ := h.App.StakingKeeper.ValidatorAddressCodec().BytesToString(op)
	if err := w.nonVoting(h.Accts[2].Addr, valStr, sdkmath.NewInt(25_000_000)); err != nil {
		return err
	}
	if err := w.delegate(h.Accts[3].Addr, valStr, sdkmath.NewInt(7_000_000)); err != nil {
		return err
	}
	params, err := gk.Params.Get(h.Ctx())
	if err != nil {
		return err
	}
	msg, err := v1.NewMsgSubmitProposal(nil, sdk.NewCoins(params.MinDeposit...), h.Accts[0].Addr.String(), "ipfs://verif", "verif", "end to end tally", v1.ProposalType_PROPOSAL_TYPE_STANDARD)
	if err != nil {
		return err
	}
	var pid uint64
	if err := apph.Tx(h.Ctx(), func(ctx sdk.Context) error {
		r, e := gsrv.SubmitProposal(ctx, msg)
		if e == nil {
			pid = r.ProposalId
		}
		return e
	}); err != nil {
		return fmt.Errorf("submit proposal: %w", err)
	}
	w.note("submit-proposal id=%d deposit=%s", pid, sdk.NewCoins(params.MinDeposit...))
	vote := func(a sdk.AccAddress, opts v1.WeightedVoteOptions) error {
		err := apph.Tx(h.Ctx(), func(ctx sdk.Context) error {
			_, e := gsrv.VoteWeighted(ctx, v1.NewMsgVoteWeighted(a.String(), pid, opts, ""))
			return e
		})
		w.note("vote %s err=%v", a, err)
		return err
	}
	if err := vote(op, v1.WeightedVoteOptions{{Option: v1.OptionYes, Weight: "1.000000000000000000"}}); err != nil {
		return fmt.Errorf("vote: %w", err)
	}
	if err := vote(h.Accts[3].Addr, v1.WeightedVoteOptions{{Option: v1.OptionNo, Weight: "0.250000000000000000"}, {Option: v1.OptionYes, Weight: "0.750000000000000000"}}); err != nil {
		return fmt.Errorf("vote: %w", err)
	}
	if err := w.block(time.Second); err != nil {
		return err
	}
	finalize := func() ([]string, string, error) {
		if _, err := h.NextBlock(*params.VotingPeriod + time.Hour); err != nil {
			return nil, "", fmt.Errorf("block ending the voting period: %w", err)
		}
		p, err := gk.Proposals.Get(h.Ctx(), pid)
		if err != nil {
			return nil, "", err
		}
		tr := p.FinalTallyResult
		if tr == nil {
			return nil, p.Status.String(), fmt.Errorf("no final tally result, status %s", p.Status)
		}
		cs := []string{}
		for _, s := range []string{tr.YesCount, tr.AbstainCount, tr.NoCount, tr.NoWithVetoCount, tr.SpamCount} {
			x, ok := new(big.Int).SetString(s, 10)
			if !ok {
				return nil, "", fmt.Errorf("bad count %q", s)
			}
			cs = append(cs, emit.Z(x))
		}
		return cs, p.Status.String(), nil
	}
	c := w.runCaseP(pid, nil, "corpus:end-to-end-proposal", finalize)
	w.record(cf, c)
	st.Count("case:end-to-end-proposal")
	return nil
}

// Run generates n cases (plus the fixed corpus) and writes cases + stats into outDir.
func Run(seed int64, n int, outDir string) error {
	r := emit.NewRand(seed)
	st := emit.NewStats("C16", seed, "one call of the tally function app.go installs in the gov keeper, on real staking state; non-trivial when non-voting stake > 0 sits on a validator that votes or has a voting delegator and >= 1 delegator (an address with delegations to bonded validators) voted; distinct by (validator votes, delegator votes, share-class vote, rate != 1, non-voting delegations, bonded totals)")
	cf := &emit.CasesFile{Import: "Stake.C16Check", Runner: "run", Type: "gov_case"}
	if err := corpus(cf, st); err != nil {
		return err
	}
	if err := endToEnd(cf, st); err != nil {
		return fmt.Errorf("end-to-end proposal: %w", err)
	}
	w := newWorld(3, 7, st)
	defer w.h.Close()
	// initial structure: some voting and non-voting stake everywhere
	for i := 0; i < 12; i++ {
		w.mutate(r)
	}
	if err := w.block(time.Second); err != nil {
		return err
	}
	for i := 0; i < n; i++ {
		k := emit.Pick(r, 0, 0, 1, 1, 2, 4)
		for j := 0; j < k; j++ {
			w.mutate(r)
		}
		if k > 0 && r.Chance(1, 2) {
			if err := w.block(time.Duration(1+r.Intn(10)) * time.Second); err != nil {
				return fmt.Errorf("block failed: %w", err)
			}
		}
		w.record(cf, w.runCase(w.genVotes(r), "gen"))
	}
	if _, err := cf.Write(outDir, "cases", 100); err != nil {
		return err
	}
	return st.Write(outDir)
}
