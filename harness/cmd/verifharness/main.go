package main

import (
	"flag"
	"fmt"
	"os"
	"time"

	"verifharness/apph"
	"verifharness/c13"
)

type runner func(seed int64, n int, out string) error

var props = map[string]runner{
	"c13": c13.Run,
}

func main() {
	if len(os.Args) < 2 {
		fmt.Println("usage: verifharness <prop|smoke> -seed N -n K -out DIR")
		os.Exit(2)
	}
	cmd := os.Args[1]
	fs := flag.NewFlagSet(cmd, flag.ExitOnError)
	seed := fs.Int64("seed", 1, "PRNG seed")
	n := fs.Int("n", 100, "number of generated cases")
	out := fs.String("out", ".", "output directory")
	fs.Parse(os.Args[2:])
	if cmd == "smoke" {
		t0 := time.Now()
		h := apph.New(apph.Options{})
		defer h.Close()
		for i := 0; i < 5; i++ {
			if _, err := h.NextBlock(time.Second); err != nil {
				fmt.Println("ERR", err)
				os.Exit(1)
			}
		}
		fmt.Println("ok height", h.Height, time.Since(t0))
		return
	}
	f, ok := props[cmd]
	if !ok {
		fmt.Println("unknown property", cmd)
		os.Exit(2)
	}
	if err := os.MkdirAll(*out, 0o755); err != nil {
		panic(err)
	}
	if err := f(*seed, *n, *out); err != nil {
		fmt.Println("HARNESS-ERROR", err)
		os.Exit(3)
	}
}
