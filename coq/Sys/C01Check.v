(* Correspondence + monitors for C01 (block processing never halts). Evaluated by generated
   cases files.  Case kinds:
     CBlock  one real FinalizeBlock: the projections every custom hook reads, dumped before the
             block, the block's outcome and a few post-state fields
     CPool   one MsgCreatePool (signed transaction): parameters and whether it was accepted
     CWatch  MsgCreatePool + first MsgCreatePosition of the pool executed in a child process under
             a watchdog: did the transaction return?
     CParam  one parameter set offered to x/da MsgUpdateParams: accepted?
   Codes: 0 correspondence; 1 FinalizeBlock returned an error or panicked; 2 a transaction did not
   return within the watchdog although/and the model's iteration count is >= 10^7 (hang);
   3 PrepareProposal returned more than MaxTxBytes;
   101 trigger of the known finding "share-class entry owes more than x/staking released". *)
From Coq Require Import ZArith List Bool.
Import ListNotations.
From Sunrise Require Export Base.Outcome Base.Dec Base.Bank Base.Check Econ.Mint Amm.Math Stake.TallyCore
  Sys.Blocks Sys.Loops.
From Sunrise Require Stake.Gauge Stake.ShareClass Da.Da Da.Tally.
Local Open Scope Z_scope.

(* ------------------------------------------------------------------ one block *)
Record block_obs := {
  ob_result : Z;                         (* 0 = committed, 1 = FinalizeBlock returned an error, 2 = panic *)
  ob_pds : list pd;                      (* verified heights after the block of the records that existed before it
                                            and were not pruned by it *)
  ob_mint : option (Z * Z * Z);          (* minted fee / bond coins and minter.Data when the epoch fired *)
  ob_mint_skip : bool;                   (* coins were burnt in BeginBlock before the epoch hook (slashing):
                                            the supplies the mint function read are not the dumped ones *)
  ob_alloc : option (list Z);            (* received by the fee account of each gauge pool (None: not
                                            comparable, AMM transactions in the block) *)
  ob_da : option (list (Z * Z));         (* (uri, status) after the block (None: DA transactions in the block) *)
  ob_epochs : option (list (Z * Z * Z)); (* (id, start, end) (None: staking / vote transactions in the block) *)
  ob_sc : option (list Z)                (* ids left in the share-class queue (None: share-class txs in the block) *)
}.

Definition class_of {A} (r : res A) : Z := match r with Ok _ => 0 | Err _ => 1 | Panic => 2 end.

Fixpoint zzlist_eqb (a b : list (Z * Z)) : bool :=
  match a, b with
  | [], [] => true
  | (x1, x2) :: a', (y1, y2) :: b' => (x1 =? y1) && (x2 =? y2) && zzlist_eqb a' b'
  | _, _ => false
  end.
Fixpoint z3list_eqb (a b : list (Z * Z * Z)) : bool :=
  match a, b with
  | [], [] => true
  | (x1, x2, x3) :: a', (y1, y2, y3) :: b' => (x1 =? y1) && (x2 =? y2) && (x3 =? y3) && z3list_eqb a' b'
  | _, _ => false
  end.
Definition opt_cmp {A} (o : option A) (f : A -> bool) : bool := match o with None => true | Some x => f x end.

(* the share-class queue stores the exact completion time x/staking reported for the entry
   (MsgUndelegateResponse.CompletionTime): every stored entry has a pending x/staking
   unbonding-delegation entry of the module account with the very same time.  (Both are dumped
   before the block: x/staking completes an entry in the block in which the share class pays it.) *)
Definition queue_times_ok (i : sc_in) : bool :=
  forallb (fun e => existsb (Z.eqb (ShareClass.u_time e)) (sc_staking_times i)) (sc_queue i).

Definition block_corr (b : block_in) (o : block_obs) : bool :=
  queue_times_ok (b_sc b) &&
  match run_block true b with
  | Ok m =>
      (ob_result o =? 0) &&
      forallb (fun x => existsb (fun y => (pd_uri y =? pd_uri x) && (pd_verified_height y =? pd_verified_height x)) (o_pds m))
              (ob_pds o) &&
      match o_mint m, ob_mint o with
      | None, None => true
      | Some mo, Some (f, bd, l) =>
          (mo_last mo =? l) && (ob_mint_skip o || ((mo_fee_minted mo =? f) && (mo_bond_minted mo =? bd)))
      | _, _ => false
      end &&
      opt_cmp (ob_alloc o) (fun l => zlist_eqb (fst (o_alloc m)) l) &&
      opt_cmp (ob_da o) (fun l => zzlist_eqb (map (fun it => (Da.i_uri it, Da.i_status it)) (Da.s_items (fst (o_da m)))) l) &&
      opt_cmp (ob_epochs o) (fun l => z3list_eqb (map (fun e => (Gauge.e_id e, Gauge.e_start e, Gauge.e_end e)) (Gauge.s_epochs (o_li m))) l) &&
      opt_cmp (ob_sc o) (fun l => zlist_eqb (map ShareClass.u_id (o_sc m)) l)
  | r => ob_result o =? class_of r
  end.

(* monitor 1: block processing completed without error or panic *)
Definition mon_block (o : block_obs) : bool := ob_result o =? 0.
(* trigger 1: the entries of the share-class queue completing now record more than the module
   account holds after x/staking's release BECAUSE the released entries were slashed while unbonding *)
Definition trig_sc_short (b : block_in) : bool :=
  let i := b_sc b in
  let due := sc_due (b_now b) (sc_queue i) in
  (* short ... *)
  (sc_mod_bond i + sc_released i <? due) &&
  (* ... and the shortfall is what slashes took from the entries x/staking completes in this block:
     without them the funds would be there.  A shortfall with x/staking not having completed the
     entry yet (nothing released, nothing slashed) is NOT this finding. *)
  (due <=? sc_mod_bond i + sc_released i + sc_slash_loss i) && (0 <? sc_slash_loss i) &&
  queue_times_ok i.

(* ------------------------------------------------------------------ MsgCreatePool *)
Definition pool_corr (fee ratio offs : Z) (accepted : bool) : bool :=
  Bool.eqb (pool_params_ok fee ratio offs) accepted.

(* ------------------------------------------------------------------ watched transactions *)
Record watch_obs := {
  wo_pool_ok : bool;        (* MsgCreatePool code 0 *)
  wo_returned : bool;       (* the MsgCreatePosition transaction returned before the watchdog *)
  wo_pos_ok : bool;         (* ... with code 0 *)
  wo_tick : Z               (* pool's current tick afterwards (when ok) *)
}.
Definition CAP : nat := 1500.

(* the repaired code: pool parameters validated, no-progress guard in the search.
   [validated] / [guard] select the code under test (both true = HEAD with the C01 patches). *)
Definition watch_verdict (validated guard : bool) (fee ratio offs quote base : Z) : verdict :=
  if validated && negb (pool_params_ok fee ratio offs) then Returns 0   (* no pool: "pool not found" *)
  else first_position_verdict guard CAP quote base {| price_ratio := ratio; base_offset := offs |}.

Definition watch_corr (validated guard : bool) (fee ratio offs quote base : Z) (o : watch_obs) : bool :=
  Bool.eqb (wo_pool_ok o) (negb validated || pool_params_ok fee ratio offs) &&
  match watch_verdict validated guard fee ratio offs quote base with
  | Hangs => negb (wo_returned o)
  | Returns n => if n <? 1000000 then wo_returned o else true   (* wall time alone never alarms *)
  | Unknown => true
  end.
(* monitor 2: no transaction hangs: "did not return" together with a model count >= 10^7 *)
Definition mon_watch (validated guard : bool) (fee ratio offs quote base : Z) (o : watch_obs) : bool :=
  negb (negb (wo_returned o) && hangs (watch_verdict validated guard fee ratio offs quote base)).

(* ------------------------------------------------------------------ x/da parameters *)
Definition param_corr (p : Da.params) (sft slash_epoch : Z) (accepted : bool) : bool :=
  Bool.eqb (da_params_ok p sft slash_epoch) accepted.

(* ------------------------------------------------------------------ PrepareProposal *)
(* observed: sizes of the entries of the metadata section of the response (splitter first) and the
   total size of the response; the model predicts the section from the budget and the verified
   items. monitor 3: the response fits MaxTxBytes *)
Definition proposal_corr (max split : Z) (entries obs_meta : list Z) : bool :=
  zlist_eqb (metadata_section max split entries) obs_meta.
Definition mon_proposal (max total : Z) : bool := total <=? max.

(* ------------------------------------------------------------------ one parameter field *)
(* a value offered for one field of a custom module's Params (all other fields valid) to the real
   Params.Validate / MsgUpdateParams: accepted exactly when the model's domain contains it *)
Definition field_corr (kind : Z) (v : option Z) (accepted : bool) : bool := Bool.eqb (field_ok kind v) accepted.

Inductive c01_case :=
| CField (kind : Z) (v : option Z) (accepted : bool)
| CProposal (max split : Z) (entries obs_meta : list Z) (total : Z)
| CBlock (b : block_in) (o : block_obs)
| CPool (fee ratio offs : Z) (accepted : bool)
| CWatch (fee ratio offs quote base : Z) (o : watch_obs)
| CParam (p : Da.params) (sft slash_epoch : Z) (accepted : bool).

Definition c01_check_gen (validated guard : bool) (c : c01_case) : list Z :=
  match c with
  | CField kind v acc => flag 0 (field_corr kind v acc)
  | CProposal max split entries obs_meta total =>
      flag 0 (proposal_corr max split entries obs_meta) ++ flag 3 (mon_proposal max total)
  | CBlock b o => flag 0 (block_corr b o) ++ flag 1 (mon_block o) ++ flag 101 (negb (trig_sc_short b))
  | CPool fee ratio offs acc => flag 0 (if validated then pool_corr fee ratio offs acc else acc)
  | CWatch fee ratio offs quote base o =>
      flag 0 (watch_corr validated guard fee ratio offs quote base o) ++
      flag 2 (mon_watch validated guard fee ratio offs quote base o)
  | CParam p sft se acc => flag 0 (param_corr p sft se acc)
  end.
Definition c01_check := c01_check_gen true true.
Definition run := run_cases c01_check.
(* the code as found (no validation of pool parameters, no guard): for replaying a cases file
   produced on the unrepaired tree *)
Definition run_as_found := run_cases (c01_check_gen false false).
