(* C01: the swap loop of x/liquiditypool (Pool.swap_loop) with its passes counted (Loops.swap_loop_c). *)
From Coq Require Import ZArith Bool List Lia ZifyBool.
Import ListNotations.
From Sunrise Require Import Base.Outcome Base.Dec Base.DecLemmas Amm.Math Amm.Pool Sys.Loops.
Local Open Scope Z_scope.
Ltac Zify.zify_post_hook ::= Z.div_mod_to_equations.

(* ------------------------------------------------------------------ swap loop *)
Ltac break_match :=
  match goal with
  | |- context [match ?x with _ => _ end] =>
      lazymatch x with
      | context [match _ with _ => _ end] => fail
      | _ => destruct x eqn:?
      end
  end.

Lemma swap_loop_c_erase fuel : forall ei b4q ua fee limit tp acc din iter st k,
  fst (swap_loop_c fuel ei b4q ua fee limit tp acc din iter st k)
  = swap_loop fuel ei b4q ua fee limit tp acc din iter st.
Proof.
  induction fuel as [|f IH]; intros; cbn [swap_loop_c swap_loop].
  - destruct (negb _); reflexivity.
  - destruct (negb _); [reflexivity|]. destruct iter as [|nt iter']; [reflexivity|].
    unfold rbind.
    repeat (first [reflexivity | apply IH | break_match]).
Qed.

Ltac break_match_in H :=
  match type of H with
  | context [match ?x with _ => _ end] =>
      lazymatch x with
      | context [match _ with _ => _ end] => fail
      | _ => destruct x eqn:?
      end
  end.

(* every pass either consumes an initialised tick of the iterator (at most as many as there are),
   or is a zero-progress pass (at most 101 before ErrRanOutOfIterations), or is an "other" pass *)
Lemma swap_loop_c_bounds fuel : forall ei b4q ua fee limit tp acc din iter st k r k',
  ss_noprog st <= 100 ->
  swap_loop_c fuel ei b4q ua fee limit tp acc din iter st k = (r, k') ->
  n_cross k <= n_cross k' <= n_cross k + Z.of_nat (length iter) /\
  n_zero k <= n_zero k' <= n_zero k + (101 - ss_noprog st) /\
  n_other k <= n_other k'.
Proof.
  induction fuel as [|f IH]; intros ei b4q ua fee limit tp acc din iter st k r k' Hnp H;
    cbn [swap_loop_c] in H.
  - destruct (negb _); injection H as <- <-; lia.
  - destruct (negb _); [injection H as <- <-; lia|].
    destruct iter as [|nt iter']; [injection H as <- <-; cbn [length Z.of_nat]; lia|].
    unfold rbind in H. cbn [length]. rewrite Nat2Z.inj_succ.
    repeat (first
      [ match type of H with (_, _) = (_, _) =>
          injection H as <- <-; cbn [n_cross n_zero n_other negb andb orb]; lia end
      | match type of H with swap_loop_c _ _ _ _ _ _ _ _ _ _ _ _ = _ =>
          apply IH in H; [cbn [n_cross n_zero n_other ss_noprog length negb andb orb] in H;
                          try rewrite Nat2Z.inj_succ in H; lia
                         | cbn [ss_noprog]; lia] end
      | break_match_in H ]).
Qed.

