package c18

import (
	"crypto/sha256"
	"fmt"
	"math/big"

	"cosmossdk.io/core/header"
	"cosmossdk.io/core/transaction"
	sdkmath "cosmossdk.io/math"
	banktypes "cosmossdk.io/x/bank/types"
	"cosmossdk.io/x/feegrant"
	sdk "github.com/cosmos/cosmos-sdk/types"
	"google.golang.org/protobuf/reflect/protoreflect"

	feeante "github.com/sunriselayer/sunrise/x/fee/ante"

	"verifharness/apph"
	"verifharness/emit"
)

// mockTx is a FeeTx whose fee set, gas, payer and granter are exactly what the generator chose
// (the wire decoder would merge duplicates and drop zero coins before the decorator sees them).
type mockTx struct {
	msgs    []sdk.Msg
	gas     uint64
	fee     sdk.Coins
	payer   []byte
	granter []byte
}

func (m mockTx) GetMsgs() []sdk.Msg                                     { return m.msgs }
func (m mockTx) GetReflectMessages() ([]protoreflect.Message, error)    { return nil, nil }
func (m mockTx) Hash() [32]byte                                         { return sha256.Sum256([]byte(fmt.Sprint(m.gas, m.fee))) }
func (m mockTx) GetMessages() ([]transaction.Msg, error)                { return m.msgs, nil }
func (m mockTx) GetSenders() ([]transaction.Identity, error)            { return [][]byte{m.payer}, nil }
func (m mockTx) GetGasLimit() (uint64, error)                           { return m.gas, nil }
func (m mockTx) Bytes() []byte                                          { return nil }
func (m mockTx) GetGas() uint64                                         { return m.gas }
func (m mockTx) GetFee() sdk.Coins                                      { return m.fee }
func (m mockTx) FeePayer() []byte                                       { return m.payer }
func (m mockTx) FeeGranter() []byte                                     { return m.granter }

var _ sdk.FeeTx = mockTx{}

// grantKind: how the (granter, payer) allowance is set up before the case.
const (
	grantNone = iota
	grantUnlimited
	grantEnough
	grantTooSmall
	grantOtherDenom
	grantMsgAllowed
	grantMsgNotAllowed
	nGrantKinds
)

type directCase struct {
	In        anteIn
	PayerBal  map[string]*big.Int // balances to install (valid denoms only)
	GrantBal  map[string]*big.Int
	GrantKind int
	NoParams  bool
}

var one18 = new(big.Int).Exp(big.NewInt(10), big.NewInt(18), nil)

func rawDec(s string) *big.Int {
	d := sdkmath.LegacyMustNewDecFromStr(s)
	return d.BigInt()
}

var paramConfigs = []feeParams{
	{"urise", []string{"uvrise"}},
	{"urise", nil},
	{"uusdc", []string{"urise", "uatom"}},
	{"urise", []string{"uusdc", "uatom", "uvrise"}},
	{"uvrise", []string{"uosmo"}},
}

// min-gas-price configurations (sorted by denom, as sdk.ParseDecCoins delivers them)
var mgpConfigs = []string{
	"",
	"0.025urise",
	"0.1urise,0.5uusdc",
	"0.000000000000000001urise",
	"1000000urise",
	"0.025uvrise",
	"0.3uatom,0.025urise,0.01uvrise",
	"0.025uzzz",
}

func parseMgp(s string) (sdk.DecCoins, []coin) {
	if s == "" {
		return sdk.DecCoins{}, nil
	}
	dc, err := sdk.ParseDecCoins(s)
	if err != nil {
		panic(err)
	}
	out := make([]coin, len(dc))
	for i, c := range dc {
		out[i] = coin{c.Denom, c.Amount.BigInt()}
	}
	return dc, out
}

// requiredFor returns ceil(price*gas) for denom under the given config (nil if absent).
func requiredFor(mgp []coin, denom string, gas uint64) *big.Int {
	for _, c := range mgp {
		if c.Denom == denom {
			x := new(big.Int).Mul(c.Amt, new(big.Int).SetUint64(gas))
			q, m := new(big.Int).QuoRem(x, one18, new(big.Int))
			if m.Sign() > 0 {
				q.Add(q, big.NewInt(1))
			}
			return q
		}
	}
	return nil
}

// genFee draws a fee set: mostly one admissible coin, plus every deviation the property names.
func genFee(r *emit.Rand, p feeParams, mgp []coin, gas uint64, direct bool) []coin {
	amt := func(d string) *big.Int {
		req := requiredFor(mgp, d, gas)
		if req != nil && req.BitLen() < 200 {
			switch r.Intn(6) {
			case 0:
				return new(big.Int).Set(req)
			case 1:
				return new(big.Int).Sub(req, big.NewInt(1))
			case 2:
				return new(big.Int).Add(req, big.NewInt(1))
			case 3:
				return new(big.Int).Add(req, r.LogUniform(12))
			}
		}
		switch r.Intn(8) {
		case 0:
			return big.NewInt(1)
		case 1:
			return big.NewInt(0)
		case 2:
			return r.LogUniform(30) // beyond any balance
		default:
			return r.LogUniform(11)
		}
	}
	pickOther := func() string {
		for {
			d := emit.Pick(r, validDenoms...)
			if d == p.FeeDenom {
				continue
			}
			by := false
			for _, b := range p.Bypass {
				by = by || b == d
			}
			if !by {
				return d
			}
		}
	}
	one := func(d string) []coin { return []coin{{d, amt(d)}} }
	// half of the time: a fee that check mode admits (admissible denom, priced, amount >= required)
	if r.Chance(1, 2) {
		adm := append([]string{p.FeeDenom}, p.Bypass...)
		var cand []string
		for _, d := range adm {
			if len(mgp) == 0 || requiredFor(mgp, d, gas) != nil {
				cand = append(cand, d)
			}
		}
		if len(cand) > 0 {
			d := cand[r.Intn(len(cand))]
			a := r.LogUniform(10)
			if req := requiredFor(mgp, d, gas); req != nil && req.BitLen() < 200 {
				switch r.Intn(3) {
				case 0:
					a = req
				case 1:
					a = new(big.Int).Add(req, big.NewInt(1))
				default:
					a = new(big.Int).Add(req, r.LogUniform(9))
				}
			}
			return []coin{{d, a}}
		}
	}
	switch k := r.Intn(20); {
	case k < 7:
		return one(p.FeeDenom)
	case k < 10:
		if len(p.Bypass) > 0 {
			return one(emit.Pick(r, p.Bypass...))
		}
		return one(p.FeeDenom)
	case k < 12:
		return one(pickOther())
	case k == 12:
		return nil
	case k == 13:
		return []coin{{p.FeeDenom, big.NewInt(0)}}
	case k < 17: // several coins, sorted and valid
		ds := append([]string{}, validDenoms...)
		m := 2 + r.Intn(2)
		var out []coin
		for _, d := range ds {
			if len(out) < m && r.Chance(1, 2) {
				out = append(out, coin{d, amt(d)})
			}
		}
		if len(out) < 2 {
			out = []coin{{"urise", amt("urise")}, {"uusdc", amt("uusdc")}}
		}
		return out
	default:
		if !direct {
			return one("uzzz")
		}
		switch r.Intn(5) {
		case 0: // unsorted
			return []coin{{"uusdc", amt("uusdc")}, {"urise", amt("urise")}}
		case 1: // duplicate
			return []coin{{p.FeeDenom, amt(p.FeeDenom)}, {p.FeeDenom, amt(p.FeeDenom)}}
		case 2: // invalid denom
			return one(emit.Pick(r, "1abc", "zz"))
		case 3: // negative
			return []coin{{p.FeeDenom, big.NewInt(-1 - int64(r.Intn(1000)))}}
		default:
			return []coin{{p.FeeDenom, amt(p.FeeDenom)}, {emit.Pick(r, "1abc", "zz"), big.NewInt(5)}}
		}
	}
}

func genGas(r *emit.Rand, direct bool) uint64 {
	if !direct {
		switch r.Intn(12) {
		case 0:
			return 50 // runs out of gas before the fee decorator
		case 1:
			return 100_000
		case 2:
			return 1_000_000
		case 3:
			return 99_999_999
		case 4:
			return 150_000 + uint64(r.Intn(1000))
		default:
			return 200_000
		}
	}
	switch r.Intn(14) {
	case 0:
		return 0
	case 1:
		return 1
	case 2:
		return 1<<63 - 1
	case 3:
		return 1 << 63
	case 4:
		return ^uint64(0)
	case 5:
		return uint64(r.Intn(1000))
	case 6:
		return 1 + uint64(r.Int63n(1<<40))
	default:
		return 200_000
	}
}

// genBalances draws the paying account's balances relative to the fee.
func genBalances(r *emit.Rand, fee []coin) map[string]*big.Int {
	out := map[string]*big.Int{}
	for _, d := range validDenoms {
		out[d] = big.NewInt(1_000_000_000_000)
	}
	mode := r.Intn(8)
	for _, c := range fee {
		if _, ok := out[c.Denom]; !ok || c.Amt.Sign() <= 0 {
			continue
		}
		switch mode {
		case 0:
			out[c.Denom] = new(big.Int).Set(c.Amt)
		case 1:
			out[c.Denom] = new(big.Int).Sub(c.Amt, big.NewInt(1))
		case 2:
			out[c.Denom] = big.NewInt(0)
		case 3: // only the last fee coin is short
			if c.Denom == fee[len(fee)-1].Denom {
				out[c.Denom] = new(big.Int).Sub(c.Amt, big.NewInt(1))
			}
		}
	}
	return out
}

func (e *env) genDirect() directCase {
	r := e.r
	var c directCase
	p := paramConfigs[r.Intn(len(paramConfigs))]
	if r.Chance(1, 2) {
		p = paramConfigs[0]
	}
	c.In.Params = &p
	if r.Chance(1, 40) {
		c.NoParams = true
		c.In.Params = nil
	}
	switch k := r.Intn(10); {
	case k < 6:
		c.In.Mode = 0
	case k == 6:
		c.In.Mode = 1
	case k == 7:
		c.In.Mode = 2
	case k == 8:
		c.In.Mode = 7
	default:
		c.In.Mode = r.Intn(8)
	}
	switch r.Intn(10) {
	case 0:
		c.In.Height = 0
	case 1:
		c.In.Height = 1
	default:
		c.In.Height = 2 + r.Int63n(1000)
	}
	c.In.Gas = genGas(r, true)
	mi := r.Intn(len(mgpConfigs))
	if r.Chance(1, 3) {
		mi = 0
	}
	_, c.In.Mgp = parseMgp(mgpConfigs[mi])
	c.In.Fee = genFee(r, p, c.In.Mgp, c.In.Gas, true)
	switch k := r.Intn(10); {
	case k < 5:
		c.In.Granter = 0
	case k == 5:
		c.In.Granter = 1
	default:
		c.In.Granter = 2
		c.GrantKind = r.Intn(nGrantKinds)
	}
	c.PayerBal = genBalances(r, c.In.Fee)
	c.GrantBal = genBalances(r, c.In.Fee)
	return c
}

// installGrant sets up the (granter -> grantee) allowance of the given kind with the real
// feegrant message server.
func installGrant(h *apph.H, ctx sdk.Context, granter, grantee sdk.AccAddress, kind int, fee []coin) error {
	// drop whatever exists
	if _, err := h.App.FeeGrantKeeper.GetAllowance(ctx, granter, grantee); err == nil {
		m := feegrant.NewMsgRevokeAllowance(granter.String(), grantee.String())
		if _, err := feegrantMsgServer(h).RevokeAllowance(ctx, &m); err != nil {
			return fmt.Errorf("revoke: %w", err)
		}
	}
	if kind == grantNone {
		return nil
	}
	limit := func(adj int64, denomOverride string) sdk.Coins {
		var cs sdk.Coins
		for _, c := range fee {
			if sdk.ValidateDenom(c.Denom) != nil || c.Amt.Sign() <= 0 {
				continue
			}
			a := new(big.Int).Add(c.Amt, big.NewInt(adj))
			if a.Sign() <= 0 {
				a = big.NewInt(1)
			}
			d := c.Denom
			if denomOverride != "" {
				d = denomOverride
			}
			cs = cs.Add(sdk.NewCoin(d, sdkmath.NewIntFromBigInt(a)))
		}
		if len(cs) == 0 {
			cs = sdk.NewCoins(sdk.NewInt64Coin("urise", 1))
		}
		return cs
	}
	var al feegrant.FeeAllowanceI
	switch kind {
	case grantUnlimited:
		al = &feegrant.BasicAllowance{}
	case grantEnough:
		al = &feegrant.BasicAllowance{SpendLimit: limit(5, "")}
	case grantTooSmall:
		al = &feegrant.BasicAllowance{SpendLimit: limit(-1, "")}
	case grantOtherDenom:
		al = &feegrant.BasicAllowance{SpendLimit: limit(0, "uosmo")}
	case grantMsgAllowed:
		a, err := feegrant.NewAllowedMsgAllowance(&feegrant.BasicAllowance{}, []string{sdk.MsgTypeURL(&banktypes.MsgSend{})})
		if err != nil {
			return err
		}
		al = a
	case grantMsgNotAllowed:
		a, err := feegrant.NewAllowedMsgAllowance(&feegrant.BasicAllowance{}, []string{sdk.MsgTypeURL(&banktypes.MsgMultiSend{})})
		if err != nil {
			return err
		}
		al = a
	}
	msg, err := feegrant.NewMsgGrantAllowance(al, granter.String(), grantee.String())
	if err != nil {
		return err
	}
	_, err = feegrantMsgServer(h).GrantAllowance(ctx, msg)
	return err
}

// directCase runs the real decorator once inside a discarded branch of the committed state.
func (e *env) directCase(c directCase, tag string) error {
	h := e.h
	base, _ := h.Ctx().CacheContext()
	payer, granter, byst := h.Accts[0].Addr, h.Accts[1].Addr, h.Accts[7].Addr
	accts := []sdk.AccAddress{payer, granter, collector, byst}
	// state set-up inside the branch
	if c.NoParams {
		if err := h.App.FeeKeeper.Params.Remove(base); err != nil {
			return err
		}
	} else {
		p, err := h.App.FeeKeeper.Params.Get(base)
		if err != nil {
			return err
		}
		p.FeeDenom, p.BypassDenoms = c.In.Params.FeeDenom, c.In.Params.Bypass
		if err := h.App.FeeKeeper.Params.Set(base, p); err != nil {
			return err
		}
	}
	for _, d := range validDenoms {
		if err := setBal(h, base, payer, d, c.PayerBal[d]); err != nil {
			return err
		}
		if err := setBal(h, base, granter, d, c.GrantBal[d]); err != nil {
			return err
		}
	}
	msgs := []sdk.Msg{&banktypes.MsgSend{FromAddress: payer.String(), ToAddress: byst.String(), Amount: sdk.NewCoins(sdk.NewInt64Coin("uosmo", 1))}}
	tx := mockTx{msgs: msgs, gas: c.In.Gas, fee: sdkCoins(c.In.Fee), payer: payer}
	if tx.fee == nil {
		tx.fee = sdk.Coins{}
	}
	switch c.In.Granter {
	case 1:
		tx.granter = payer
	case 2:
		tx.granter = granter
		if err := installGrant(h, base, granter, payer, c.GrantKind, c.In.Fee); err != nil {
			return fmt.Errorf("grant set-up: %w", err)
		}
	}
	mgp := make(sdk.DecCoins, len(c.In.Mgp))
	for i, m := range c.In.Mgp {
		mgp[i] = sdk.DecCoin{Denom: m.Denom, Amount: sdkmath.LegacyNewDecFromBigIntWithPrec(m.Amt, 18)}
	}
	ctx := base.WithExecMode(sdk.ExecMode(c.In.Mode)).WithMinGasPrices(mgp).
		WithBlockHeight(c.In.Height).
		WithHeaderInfo(header.Info{Height: c.In.Height, Time: h.Time, ChainID: apph.ChainID})
	// the feegrant oracle, asked on a throw-away branch of the same state
	c.In.AllowErr = "(Ok tt)"
	if c.In.Granter == 2 {
		oc, _ := ctx.CacheContext()
		var oerr error
		func() {
			defer func() {
				if r := recover(); r != nil {
					oerr = fmt.Errorf("panic: %v", r)
				}
			}()
			oerr = h.App.FeeGrantKeeper.UseGrantedFees(oc, granter, payer, tx.fee, msgs)
		}()
		c.In.AllowErr = allowTerm(oerr)
	}
	pre := view(h, ctx, accts)
	dec := feeante.NewDeductFeeDecorator(h.App.AuthKeeper, h.App.BankKeeper, h.App.FeeGrantKeeper, h.App.FeeKeeper)
	var prio int64
	reached := false
	err := apph.Tx(ctx, func(cc sdk.Context) error {
		_, e := dec.AnteHandle(cc, tx, false, func(c2 sdk.Context, _ sdk.Tx, _ bool) (sdk.Context, error) {
			prio = c2.Priority()
			reached = true
			return c2, nil
		})
		return e
	})
	post := view(h, ctx, accts)
	obs := errClass(err)
	if err == nil {
		if !reached {
			return fmt.Errorf("decorator returned nil without calling next")
		}
		obs = "(Ok " + emit.ZI(prio) + ")"
	}
	info := map[string]any{"kind": "ante-direct", "tag": tag, "mode": modeNames[c.In.Mode], "height": c.In.Height, "gas": c.In.Gas,
		"fee": strCoins(c.In.Fee), "min_gas_prices_raw": strCoins(c.In.Mgp), "params": c.In.Params, "granter": c.In.Granter,
		"grant_kind": c.GrantKind, "allow": c.In.AllowErr, "result": obs}
	if err != nil {
		info["err"] = err.Error()
	}
	e.emitAnte(c.In, pre, obs, post, false, info)
	return nil
}

// emitAnte writes one CAnte case and the statistics for it.
func (e *env) emitAnte(in anteIn, pre []string, obs string, post []string, appLevel bool, info map[string]any) {
	e.cf.Add(fmt.Sprintf("CAnte %s %s %s %s %s", emit.Bool(appLevel), in.coq(), emit.List(pre), obs, diffView(pre, post)))
	e.st.Info(info)
	e.st.Evaluations++
	lvl := "direct"
	if appLevel {
		lvl = "app"
	}
	shape := feeShape(in.Fee, in.Params)
	out := "ok"
	if obs == "Panic" {
		out = "panic"
	} else if obs[1] == 'E' {
		out = "err" + obs[5:len(obs)-1]
	}
	e.st.Count("ante/" + lvl + "/" + modeNames[in.Mode] + "/" + out)
	e.st.Count("fee-shape/" + shape)
	if in.Mode == 0 && in.Height > 0 && shape != "fee" {
		pk := "none"
		if in.Params != nil {
			pk = in.Params.FeeDenom + fmt.Sprint(in.Params.Bypass)
		}
		e.st.Nontriv(fmt.Sprintf("ante/%s/%s/%s/%s/g%d/%s", lvl, shape, strCoins(in.Mgp), pk, in.Granter, out))
		e.st.Sample(info)
	}
}

// corpusDirect: fixed regression cases (run first on every seed).
func corpusDirect() []directCase {
	rich := func() map[string]*big.Int {
		m := map[string]*big.Int{}
		for _, d := range validDenoms {
			m[d] = big.NewInt(1_000_000_000)
		}
		return m
	}
	p := paramConfigs[0]
	_, mgp := parseMgp("0.025urise")
	mk := func(mode int, height int64, gas uint64, fee []coin, m []coin) directCase {
		pp := p
		return directCase{In: anteIn{Mode: mode, Height: height, Gas: gas, Fee: fee, Mgp: m, Params: &pp}, PayerBal: rich(), GrantBal: rich()}
	}
	return []directCase{
		mk(0, 5, 200000, []coin{{"urise", big.NewInt(5000)}}, mgp),                                  // admitted: exactly the required fee
		mk(0, 5, 200000, []coin{{"urise", big.NewInt(4999)}}, mgp),                                  // one below
		mk(0, 5, 200000, []coin{{"uusdc", big.NewInt(5000)}}, mgp),                                  // wrong denom
		mk(0, 5, 200000, []coin{{"uvrise", big.NewInt(5000)}}, mgp),                                 // bypass denom without a price
		mk(0, 5, 200000, []coin{{"urise", big.NewInt(5000)}, {"uusdc", big.NewInt(1)}}, mgp),        // two coins
		mk(0, 5, 200000, nil, nil),                                                                  // no fee
		mk(0, 5, 200000, []coin{{"urise", big.NewInt(0)}}, nil),                                     // zero-amount coin, no min price
		mk(1, 5, 200000, []coin{{"uusdc", big.NewInt(5000)}, {"uzzz", big.NewInt(1)}}, mgp),         // recheck: not filtered
		mk(7, 5, 200000, []coin{{"uatom", big.NewInt(7)}, {"uusdc", big.NewInt(9)}}, nil),           // finalize: any valid set
		mk(0, 0, 0, nil, nil),                                                                       // genesis, no gas, no fee
		mk(7, 0, 0, []coin{{"urise", big.NewInt(1)}}, nil),                                          // genesis, zero gas with a fee: priority divides by zero
		mk(0, 5, 1 << 63, []coin{{"urise", big.NewInt(5000)}}, mgp),                                 // int64(gas) negative
		mk(0, 0, 200000, []coin{{"zz", big.NewInt(5)}}, mgp),                                        // AmountOf panics on an invalid denom
		mk(2, 5, 0, []coin{{"uusdc", big.NewInt(5)}, {"uzzz", big.NewInt(0)}}, mgp),                 // simulate: nothing checked, invalid set
	}
}

var _ = emit.ZI
