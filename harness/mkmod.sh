#!/bin/sh
# Regenerate the harness's go.mod / go.sum from $VERIF_REPO's current go.mod so that the
# harness always resolves exactly the dependency versions the repository pins.
# Output goes to $VERIF_MODFILE (default: harness/go.mod); its go.sum sits beside it.
set -e
cd "$(dirname "$0")"
REPO=${VERIF_REPO:-/repo}
OUT=${VERIF_MODFILE:-$PWD/go.mod}
SUM="${OUT%.mod}.sum"
TMP="$OUT.new.$$"
{
  echo "module verifharness"
  echo
  sed -e '/^module /d' "$REPO/go.mod"
  echo
  echo "require github.com/sunriselayer/sunrise v0.0.0"
  echo "replace github.com/sunriselayer/sunrise => $REPO"
  if [ -f "$REPO/x/da/erasurecoding/go.mod" ]; then
    echo "require github.com/sunriselayer/sunrise/x/da/erasurecoding v0.0.0"
    echo "replace github.com/sunriselayer/sunrise/x/da/erasurecoding => $REPO/x/da/erasurecoding"
  fi
} > "$TMP"
if ! cmp -s "$TMP" "$OUT"; then mv "$TMP" "$OUT"; else rm "$TMP"; fi
if [ -f "$REPO/x/da/erasurecoding/go.sum" ]; then
  cat "$REPO/go.sum" "$REPO/x/da/erasurecoding/go.sum" | sort -u > "$SUM.new.$$"
else
  cp "$REPO/go.sum" "$SUM.new.$$"
fi
if ! cmp -s "$SUM.new.$$" "$SUM"; then mv "$SUM.new.$$" "$SUM"; else rm "$SUM.new.$$"; fi
# a go.mod must exist in the module root even when -modfile is used
[ -f go.mod ] || cp "$OUT" go.mod
