(* List lemmas for the tick store and the position list (used by LiqInv.v). *)
From Coq Require Import ZArith Bool List Lia Sorted.
Import ListNotations.
From Sunrise Require Import Base.Outcome Base.Dec Amm.Math Amm.Pool Amm.LiqDefs.
Local Open Scope Z_scope.

(* ---- ticks ---- *)
Lemma find_put_tick l t i :
  find_tick (put_tick l t) i = if i =? t_index t then Some t else find_tick l i.
Proof.
  induction l as [|x l IH]; cbn [put_tick find_tick].
  - rewrite (Z.eqb_sym (t_index t) i). reflexivity.
  - destruct (Z.eqb_spec (t_index x) (t_index t)) as [E|E].
    + cbn [find_tick]. rewrite (Z.eqb_sym (t_index t) i).
      destruct (Z.eqb_spec i (t_index t)) as [Ei|N]; [reflexivity|].
      destruct (Z.eqb_spec (t_index x) i); [lia|reflexivity].
    + destruct (Z.ltb_spec (t_index t) (t_index x)).
      * cbn [find_tick]. rewrite (Z.eqb_sym (t_index t) i).
        destruct (Z.eqb_spec i (t_index t)); reflexivity.
      * cbn [find_tick]. destruct (Z.eqb_spec (t_index x) i) as [Ex|N].
        -- destruct (Z.eqb_spec i (t_index t)); [lia|reflexivity].
        -- apply IH.
Qed.

Lemma sorted_put_tick l t : StronglySorted tick_lt l -> StronglySorted tick_lt (put_tick l t).
Proof.
  intros H. induction H as [|x l Hs IH Hall]; cbn [put_tick].
  - constructor; constructor.
  - destruct (Z.eqb_spec (t_index x) (t_index t)) as [E|E].
    + constructor; [assumption|]. eapply Forall_impl; [|exact Hall]. unfold tick_lt. intros; lia.
    + destruct (Z.ltb_spec (t_index t) (t_index x)).
      * constructor; [constructor; assumption|]. constructor; [exact H|].
        eapply Forall_impl; [|exact Hall]. unfold tick_lt in *. intros; lia.
      * constructor; [assumption|].
        assert (Hin : forall y, In y (put_tick l t) -> y = t \/ In y l).
        { clear. induction l as [|z l IH]; cbn [put_tick]; intros y Hy.
          - destruct Hy as [<-|[]]; auto.
          - destruct (t_index z =? t_index t); [destruct Hy as [<-|Hy]; [auto|right; right; exact Hy]|].
            destruct (t_index t <? t_index z); [destruct Hy as [<-|Hy]; [auto|right; exact Hy]|].
            destruct Hy as [<-|Hy]; [right; left; reflexivity|]. destruct (IH _ Hy); [auto|right; right; assumption]. }
        apply Forall_forall. intros y Hy. destruct (Hin _ Hy) as [->|Hy'].
        -- unfold tick_lt. lia.
        -- rewrite Forall_forall in Hall. apply Hall. exact Hy'.
Qed.

Lemma find_tick_lt l i : StronglySorted tick_lt l ->
  Forall (fun y => i < t_index y) l -> find_tick l i = None.
Proof.
  intros _ H. induction H as [|y l Hy _ IH]; cbn [find_tick]; [reflexivity|].
  destruct (Z.eqb_spec (t_index y) i); [lia|exact IH].
Qed.

Lemma find_del_tick l i j : StronglySorted tick_lt l ->
  find_tick (del_tick l i) j = if j =? i then None else find_tick l j.
Proof.
  intros H. induction H as [|x l Hs IH Hall]; cbn [del_tick find_tick].
  - destruct (j =? i); reflexivity.
  - destruct (Z.eqb_spec (t_index x) i) as [E|E].
    + destruct (Z.eqb_spec j i) as [Ej|N].
      * apply find_tick_lt; [assumption|]. eapply Forall_impl; [|exact Hall]. unfold tick_lt. intros; lia.
      * destruct (Z.eqb_spec (t_index x) j); [lia|reflexivity].
    + cbn [find_tick]. destruct (Z.eqb_spec (t_index x) j) as [E2|E2].
      * destruct (Z.eqb_spec j i); [lia|reflexivity].
      * exact IH.
Qed.

Lemma in_del_tick l i y : In y (del_tick l i) -> In y l.
Proof.
  induction l as [|x l IH]; cbn [del_tick]; [auto|].
  destruct (t_index x =? i); [intros; right; assumption|].
  intros [<-|H]; [left; reflexivity|right; auto].
Qed.
Lemma sorted_del_tick l i : StronglySorted tick_lt l -> StronglySorted tick_lt (del_tick l i).
Proof.
  intros H. induction H as [|x l Hs IH Hall]; cbn [del_tick]; [constructor|].
  destruct (t_index x =? i); [assumption|]. constructor; [assumption|].
  apply Forall_forall. intros y Hy. rewrite Forall_forall in Hall. apply Hall. eapply in_del_tick; eassumption.
Qed.

Lemma stored_gross_put l t i : stored_gross (put_tick l t) i = if i =? t_index t then t_gross t else stored_gross l i.
Proof. unfold stored_gross. rewrite find_put_tick. destruct (i =? t_index t); reflexivity. Qed.
Lemma stored_net_put l t i : stored_net (put_tick l t) i = if i =? t_index t then t_net t else stored_net l i.
Proof. unfold stored_net. rewrite find_put_tick. destruct (i =? t_index t); reflexivity. Qed.

(* ---- positions: generic sums ---- *)
Fixpoint sumf (f : position -> Z) (ps : list position) : Z :=
  match ps with [] => 0 | p :: r => f p + sumf f r end.

Definition gross_c (t : Z) (p : position) : Z := if bnd p t then pos_liq p else 0.
Definition net_c (t : Z) (p : position) : Z :=
  (if pos_lower p =? t then pos_liq p else 0) - (if pos_upper p =? t then pos_liq p else 0).
Definition active_c (tk : Z) (p : position) : Z := if covers p tk then pos_liq p else 0.

Lemma gross_at_sumf ps t : gross_at ps t = sumf (gross_c t) ps.
Proof. induction ps as [|p r IH]; cbn; [reflexivity|]. unfold gross_c at 1. rewrite IH. reflexivity. Qed.
Lemma net_at_sumf ps t : net_at ps t = sumf (net_c t) ps.
Proof. induction ps as [|p r IH]; cbn; [reflexivity|]. unfold net_c at 1. rewrite IH. reflexivity. Qed.
Lemma active_sumf ps t : active ps t = sumf (active_c t) ps.
Proof. induction ps as [|p r IH]; cbn; [reflexivity|]. unfold active_c at 1. rewrite IH. reflexivity. Qed.
Lemma total_sumf ps : total ps = sumf pos_liq ps.
Proof. induction ps as [|p r IH]; cbn; [reflexivity|]. rewrite IH. reflexivity. Qed.

Lemma find_pos_lt l i : Forall (fun y => i < pos_id y) l -> find_pos l i = None.
Proof.
  intros H. induction H as [|y l Hy _ IH]; cbn [find_pos]; [reflexivity|].
  destruct (Z.eqb_spec (pos_id y) i); [lia|exact IH].
Qed.

(* replacing the position with a given id *)
Lemma sumf_put_replace f ps p p' : StronglySorted pos_lt ps ->
  find_pos ps (pos_id p') = Some p -> sumf f (put_pos ps p') = sumf f ps - f p + f p'.
Proof.
  intros H. induction H as [|x l Hs IH Hall]; cbn [find_pos put_pos sumf]; [discriminate|].
  destruct (Z.eqb_spec (pos_id x) (pos_id p')) as [E|E].
  - intros Hf; injection Hf as <-. cbn [sumf]. lia.
  - intros Hf. destruct (Z.ltb_spec (pos_id p') (pos_id x)).
    + exfalso. rewrite find_pos_lt in Hf; [discriminate|].
      eapply Forall_impl; [|exact Hall]. unfold pos_lt. intros; lia.
    + cbn [sumf]. rewrite (IH Hf). lia.
Qed.
(* appending a position with a fresh (larger) id *)
Lemma sumf_put_fresh f ps p' : Forall (fun y => pos_id y < pos_id p') ps ->
  sumf f (put_pos ps p') = sumf f ps + f p'.
Proof.
  intros H. induction H as [|x l Hx _ IH]; cbn [put_pos sumf]; [lia|].
  destruct (Z.eqb_spec (pos_id x) (pos_id p')); [lia|].
  destruct (Z.ltb_spec (pos_id p') (pos_id x)); [lia|]. cbn [sumf]. rewrite IH. lia.
Qed.
Lemma sumf_del f ps i p : StronglySorted pos_lt ps ->
  find_pos ps i = Some p -> sumf f (del_pos ps i) = sumf f ps - f p.
Proof.
  intros H. induction H as [|x l Hs IH Hall]; cbn [find_pos del_pos sumf]; [discriminate|].
  destruct (Z.eqb_spec (pos_id x) i).
  - intros Hf; injection Hf as <-. lia.
  - intros Hf. cbn [sumf]. rewrite (IH Hf). lia.
Qed.

Lemma in_put_pos l p y : In y (put_pos l p) -> y = p \/ In y l.
Proof.
  induction l as [|z l IH]; cbn [put_pos]; intros Hy.
  - destruct Hy as [<-|[]]; auto.
  - destruct (pos_id z =? pos_id p); [destruct Hy as [<-|Hy]; [auto|right; right; exact Hy]|].
    destruct (pos_id p <? pos_id z); [destruct Hy as [<-|Hy]; [auto|right; exact Hy]|].
    destruct Hy as [<-|Hy]; [right; left; reflexivity|]. destruct (IH Hy); [auto|right; right; assumption].
Qed.
Lemma in_del_pos l i y : In y (del_pos l i) -> In y l.
Proof.
  induction l as [|x l IH]; cbn [del_pos]; [auto|].
  destruct (pos_id x =? i); [intros; right; assumption|].
  intros [<-|H]; [left; reflexivity|right; auto].
Qed.
Lemma sorted_put_pos l p : StronglySorted pos_lt l -> StronglySorted pos_lt (put_pos l p).
Proof.
  intros H. induction H as [|x l Hs IH Hall]; cbn [put_pos].
  - constructor; constructor.
  - destruct (Z.eqb_spec (pos_id x) (pos_id p)) as [E|E].
    + constructor; [assumption|]. eapply Forall_impl; [|exact Hall]. unfold pos_lt. intros; lia.
    + destruct (Z.ltb_spec (pos_id p) (pos_id x)).
      * constructor; [constructor; assumption|]. constructor; [exact H|].
        eapply Forall_impl; [|exact Hall]. unfold pos_lt in *. intros; lia.
      * constructor; [assumption|]. apply Forall_forall. intros y Hy.
        destruct (in_put_pos _ _ _ Hy) as [->|Hy']; [unfold pos_lt; lia|].
        rewrite Forall_forall in Hall. apply Hall. exact Hy'.
Qed.
Lemma sorted_del_pos l i : StronglySorted pos_lt l -> StronglySorted pos_lt (del_pos l i).
Proof.
  intros H. induction H as [|x l Hs IH Hall]; cbn [del_pos]; [constructor|].
  destruct (pos_id x =? i); [assumption|]. constructor; [assumption|].
  apply Forall_forall. intros y Hy. rewrite Forall_forall in Hall. apply Hall. eapply in_del_pos; eassumption.
Qed.
Lemma find_pos_in l i p : find_pos l i = Some p -> In p l /\ pos_id p = i.
Proof.
  induction l as [|x l IH]; cbn [find_pos]; [discriminate|].
  destruct (Z.eqb_spec (pos_id x) i).
  - intros H; injection H as <-. split; [left; reflexivity|assumption].
  - intros H. destruct (IH H). split; [right; assumption|assumption].
Qed.
Lemma forall_put_pos (Q : position -> Prop) l p : Forall Q l -> Q p -> Forall Q (put_pos l p).
Proof.
  intros Hl Hp. apply Forall_forall. intros y Hy. destruct (in_put_pos _ _ _ Hy) as [->|Hy']; [assumption|].
  rewrite Forall_forall in Hl. auto.
Qed.
Lemma forall_del_pos (Q : position -> Prop) l i : Forall Q l -> Forall Q (del_pos l i).
Proof.
  intros Hl. apply Forall_forall. intros y Hy. rewrite Forall_forall in Hl. apply Hl. eapply in_del_pos; eassumption.
Qed.
