// Package c07: harness for property C07 (DA challenge state machine and deadlines).
// The driver, the projection and the generators are shared with C08 in package dacommon.
package c07

import "verifharness/dacommon"

// Run generates n cases from seed (after the fixed corpus), runs them on the real
// application and writes cases_*.v and stats.json into outDir.
func Run(seed int64, n int, outDir string) error {
	return dacommon.Run(dacommon.C07, seed, n, outDir)
}
