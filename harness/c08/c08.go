// Package c08: harness for property C08 (DA collateral conservation).
// The driver, the projection and the generators are shared with C07 in package dacommon.
package c08

import "verifharness/dacommon"

// Run generates n cases from seed (after the fixed corpus), runs them on the real
// application and writes cases_*.v and stats.json into outDir.
func Run(seed int64, n int, outDir string) error {
	return dacommon.Run(dacommon.C08, seed, n, outDir)
}
