(* C01: termination bounds and divergence witnesses for the unmetered loops (Sys/Loops.v). *)
From Coq Require Import ZArith Bool List Lia ZifyBool.
Import ListNotations.
From Sunrise Require Import Base.Outcome Base.Dec Base.DecLemmas Amm.Math Amm.Pool Sys.Loops.
Local Open Scope Z_scope.
Local Open Scope res_scope.
Ltac Zify.zify_post_hook ::= Z.div_mod_to_equations.

(* ------------------------------------------------------------------ the guarded loops are Math.v's
   (Amm/Math.v models /repo HEAD, which contains the no-progress guard since commit 2177391) *)
Lemma search_up_g_true fuel : forall mp offset ratio t,
  search_up_g true fuel mp offset ratio t = search_up fuel mp offset ratio t.
Proof.
  induction fuel as [|f IH]; intros; cbn [search_up_g search_up]; [reflexivity|].
  destruct (mp <=? offset); [reflexivity|].
  destruct (dquo mp ratio) as [mp'|]; cbn [of_opt rbind andb]; [|reflexivity].
  destruct (negb (mp' <? mp)); [reflexivity|apply IH].
Qed.
Lemma search_down_g_true fuel : forall mp offset ratio t,
  search_down_g true fuel mp offset ratio t = search_down fuel mp offset ratio t.
Proof.
  induction fuel as [|f IH]; intros; cbn [search_down_g search_down]; [reflexivity|].
  destruct (offset <=? mp); [reflexivity|].
  destruct (dmul mp ratio) as [mp'|]; cbn [of_opt rbind andb]; [|reflexivity].
  destruct (negb (mp <? mp')); [reflexivity|apply IH].
Qed.
Lemma multiplied_price_to_tick_g_true mp tp :
  multiplied_price_to_tick_g true SEARCH_FUEL mp tp = multiplied_price_to_tick mp tp.
Proof.
  unfold multiplied_price_to_tick_g, multiplied_price_to_tick.
  generalize SEARCH_FUEL. intros fuel.
  destruct (mp <? 0); [reflexivity|].
  destruct ((MAX_MULT_SPOT <? mp) || (mp <? MIN_MULT_SPOT)); [reflexivity|].
  destruct (lift_pow (pow (price_ratio tp) (base_offset tp))) as [pw| |]; unfold rbind; try reflexivity.
  destruct (of_opt (dmul MULT pw)) as [o| |]; try reflexivity.
  destruct (mp =? o); [reflexivity|].
  destruct (o <? mp); [apply search_up_g_true|apply search_down_g_true].
Qed.

(* ------------------------------------------------------------------ one step of each search *)
Lemma dquo_step mp ratio mp' : 0 <= mp -> 0 < ratio -> dquo mp ratio = Some mp' ->
  2 * mp' * ratio <= 2 * mp * P + ratio /\ mp * P - ratio <= mp' * ratio /\ 0 <= mp'.
Proof.
  intros Hmp Hr H. unfold dquo in H.
  destruct (Z.eqb_spec ratio 0); [lia|]. apply chk_some in H. destruct H as [-> _].
  assert (Hn : 0 <= mp * (P * P)) by (unfold P; nia).
  rewrite Z.quot_div_nonneg by lia.
  set (q := mp * (P * P) / ratio).
  assert (Hq : q * ratio <= mp * (P * P) < q * ratio + ratio).
  { unfold q. pose proof (Z.div_mod (mp * (P * P)) ratio ltac:(lia)).
    pose proof (Z.mod_pos_bound (mp * (P * P)) ratio Hr). nia. }
  assert (Hq0 : 0 <= q) by (unfold q; apply Z.div_pos; lia).
  pose proof (chop_round_bracket q) as Hc. pose proof (chop_round_nonneg q Hq0) as Hc0.
  set (r := chop_round q) in *.
  assert (HP : P = 2 * HALF) by reflexivity.
  repeat split; try assumption.
  - (* r*P <= q + HALF ; q*ratio <= mp*P^2 *)
    assert (r * P * ratio <= (q + HALF) * ratio) by (apply Z.mul_le_mono_nonneg_r; lia).
    assert (2 * r * ratio * P <= 2 * mp * P * P + ratio * P) by nia.
    assert (0 < P) by reflexivity. nia.
  - assert ((q - HALF) * ratio <= r * P * ratio) by (apply Z.mul_le_mono_nonneg_r; lia).
    assert (mp * P * P - ratio - HALF * ratio < r * ratio * P) by nia.
    assert (0 < P) by reflexivity.
    assert (HH : HALF + 1 <= P) by (unfold HALF, P; lia).
    assert (mp * P * P - ratio * P < r * ratio * P) by nia.
    nia.
Qed.

Lemma dmul_step mp ratio mp' : 0 <= mp -> 0 < ratio -> dmul mp ratio = Some mp' ->
  2 * mp * ratio - P <= 2 * mp' * P /\ 2 * mp' * P <= 2 * mp * ratio + P /\ 0 <= mp'.
Proof.
  intros Hmp Hr H. pose proof (dmul_some _ _ _ H) as Hs. pose proof (chop_round_bracket (mp * ratio)) as Hb.
  rewrite <- Hs in Hb.
  pose proof (dmul_nonneg mp ratio mp' Hmp ltac:(lia) H).
  unfold P, HALF in *. lia.
Qed.

(* potentials: Phi x = 2*d*x - ratio (upwards), Psi x = 2*d*x - P (downwards), d = ratio - P *)
Definition Phi (ratio x : Z) : Z := 2 * (ratio - P) * x - ratio.
Definition Psi (ratio x : Z) : Z := 2 * (ratio - P) * x - P.

Lemma Phi_step mp ratio mp' : 0 <= mp -> P <= ratio -> dquo mp ratio = Some mp' ->
  Phi ratio mp' * ratio <= Phi ratio mp * P.
Proof.
  intros Hmp Hr H. assert (0 < P) by reflexivity.
  destruct (dquo_step mp ratio mp' Hmp ltac:(lia) H) as (Hu & _ & _).
  unfold Phi. set (d := ratio - P). assert (0 <= d) by (unfold d; lia).
  assert (d * (2 * mp' * ratio) <= d * (2 * mp * P + ratio)) by (apply Z.mul_le_mono_nonneg_l; lia).
  replace ratio with (P + d) in * by (unfold d; lia). nia.
Qed.
Lemma Psi_step mp ratio mp' : 0 <= mp -> P <= ratio -> dmul mp ratio = Some mp' ->
  Psi ratio mp * ratio <= Psi ratio mp' * P.
Proof.
  intros Hmp Hr H. assert (0 < P) by reflexivity.
  destruct (dmul_step mp ratio mp' Hmp ltac:(lia) H) as (Hl & _ & _).
  unfold Psi. set (d := ratio - P). assert (0 <= d) by (unfold d; lia).
  assert (d * (2 * mp * ratio - P) <= d * (2 * mp' * P)) by (apply Z.mul_le_mono_nonneg_l; lia).
  replace ratio with (P + d) in * by (unfold d; lia). nia.
Qed.

Lemma E_FUEL_not_oob : E_PRICE_OUT_OF_BOUND <> E_FUEL.
Proof. discriminate. Qed.

(* if the search runs out of fuel, the potential has shrunk (grown) geometrically on the way *)
Lemma search_up_out_of_fuel g ratio offset : P <= ratio -> forall fuel mp t, 0 <= mp ->
  search_up_g g fuel mp offset ratio t = Err E_FUEL ->
  exists mpf, offset < mpf /\ Phi ratio mpf * ratio ^ Z.of_nat fuel <= Phi ratio mp * P ^ Z.of_nat fuel.
Proof.
  intros Hr. induction fuel as [|f IH]; intros mp t Hmp H; cbn [search_up_g] in H.
  - destruct (Z.leb_spec mp offset); [discriminate|]. exists mp. cbn. split; lia.
  - destruct (Z.leb_spec mp offset); [discriminate|].
    destruct (dquo mp ratio) as [mp'|] eqn:Hq; cbn in H; [|discriminate].
    destruct (g && negb (mp' <? mp)); [discriminate H|].
    pose proof (Phi_step mp ratio mp' Hmp Hr Hq) as Hs.
    destruct (dquo_step mp ratio mp' Hmp ltac:(unfold P in *; lia) Hq) as (_ & _ & Hmp').
    destruct (IH mp' (t + 1) Hmp' H) as (mpf & Hof & Hinv).
    exists mpf. split; [exact Hof|].
    rewrite Nat2Z.inj_succ, !Z.pow_succ_r by lia.
    assert (0 <= P ^ Z.of_nat f) by (apply Z.pow_nonneg; unfold P; lia).
    assert (0 < ratio) by (unfold P in *; lia).
    assert (Phi ratio mp' * ratio * P ^ Z.of_nat f <= Phi ratio mp * P * P ^ Z.of_nat f)
      by (apply Z.mul_le_mono_nonneg_r; lia).
    assert (Phi ratio mpf * ratio ^ Z.of_nat f * ratio <= Phi ratio mp' * P ^ Z.of_nat f * ratio)
      by (apply Z.mul_le_mono_nonneg_r; lia).
    lia.
Qed.

Lemma search_down_out_of_fuel g ratio offset : P <= ratio -> forall fuel mp t, 0 <= mp ->
  search_down_g g fuel mp offset ratio t = Err E_FUEL ->
  exists mpf, mpf < offset /\ Psi ratio mp * ratio ^ Z.of_nat fuel <= Psi ratio mpf * P ^ Z.of_nat fuel.
Proof.
  intros Hr. induction fuel as [|f IH]; intros mp t Hmp H; cbn [search_down_g] in H.
  - destruct (Z.leb_spec offset mp); [discriminate|]. exists mp. cbn. split; lia.
  - destruct (Z.leb_spec offset mp); [discriminate|].
    destruct (dmul mp ratio) as [mp'|] eqn:Hq; cbn in H; [|discriminate].
    destruct (g && negb (mp <? mp')); [discriminate H|].
    pose proof (Psi_step mp ratio mp' Hmp Hr Hq) as Hs.
    destruct (dmul_step mp ratio mp' Hmp ltac:(unfold P in *; lia) Hq) as (_ & _ & Hmp').
    destruct (IH mp' (t - 1) Hmp' H) as (mpf & Hof & Hinv).
    exists mpf. split; [exact Hof|].
    rewrite Nat2Z.inj_succ, !Z.pow_succ_r by lia.
    assert (0 <= ratio ^ Z.of_nat f) by (apply Z.pow_nonneg; unfold P in *; lia).
    assert (0 < P) by reflexivity.
    assert (Psi ratio mp * ratio * ratio ^ Z.of_nat f <= Psi ratio mp' * P * ratio ^ Z.of_nat f)
      by (apply Z.mul_le_mono_nonneg_r; lia).
    assert (Psi ratio mp' * ratio ^ Z.of_nat f * P <= Psi ratio mpf * P ^ Z.of_nat f * P)
      by (apply Z.mul_le_mono_nonneg_r; lia).
    lia.
Qed.

(* ------------------------------------------------------------------ (P+d)^m >= 2 P^m after ceil(P/d) steps *)
Lemma bernoulli d : 0 <= d -> forall n : nat,
  P ^ Z.of_nat n * (P + Z.of_nat n * d) <= P * (P + d) ^ Z.of_nat n.
Proof.
  intros Hd. assert (HP : 0 < P) by reflexivity. induction n as [|n IH].
  - cbn. lia.
  - rewrite Nat2Z.inj_succ, !Z.pow_succ_r by lia.
    set (a := P ^ Z.of_nat n) in *. set (b := (P + d) ^ Z.of_nat n) in *. set (k := Z.of_nat n) in *.
    assert (0 <= a) by (apply Z.pow_nonneg; lia). assert (0 <= k) by (unfold k; lia).
    assert ((P + d) * (a * (P + k * d)) <= (P + d) * (P * b)) by (apply Z.mul_le_mono_nonneg_l; lia).
    assert (P * a * (P + Z.succ k * d) <= (P + d) * (a * (P + k * d))).
    { replace (Z.succ k) with (k + 1) by lia.
      assert (0 <= a * k * d * d) by (repeat apply Z.mul_nonneg_nonneg; lia). nia. }
    nia.
Qed.

Lemma steps_to_double_spec d : 1 <= d -> 1 <= steps_to_double d /\ P <= steps_to_double d * d.
Proof. intros. unfold steps_to_double. assert (0 < P) by reflexivity. nia. Qed.

Lemma ratio_pow_doubles ratio : P + 1 <= ratio ->
  let m := steps_to_double (ratio - P) in 2 * P ^ m <= ratio ^ m.
Proof.
  intros Hr m. destruct (steps_to_double_spec (ratio - P) ltac:(lia)) as (Hm1 & Hm).
  fold m in Hm1, Hm. assert (HP : 0 < P) by reflexivity.
  pose proof (bernoulli (ratio - P) ltac:(lia) (Z.to_nat m)) as B.
  rewrite Z2Nat.id in B by lia. replace (P + (ratio - P)) with ratio in B by lia.
  assert (0 < P ^ m) by (apply Z.pow_pos_nonneg; lia).
  assert (P ^ m * (2 * P) <= P ^ m * (P + m * (ratio - P))) by (apply Z.mul_le_mono_nonneg_l; lia).
  nia.
Qed.

Lemma ratio_pow_grows ratio k : P + 1 <= ratio -> 0 <= k ->
  let m := steps_to_double (ratio - P) in 2 ^ k * P ^ (m * k) <= ratio ^ (m * k).
Proof.
  intros Hr Hk m. pose proof (ratio_pow_doubles ratio Hr) as Hd. fold m in Hd.
  destruct (steps_to_double_spec (ratio - P) ltac:(lia)) as (Hm1 & _). fold m in Hm1.
  assert (HP : 0 < P) by reflexivity.
  rewrite !Z.pow_mul_r by lia. rewrite <- Z.pow_mul_l.
  apply Z.pow_le_mono_l. split; [|exact Hd].
  assert (0 < P ^ m) by (apply Z.pow_pos_nonneg; lia). lia.
Qed.

(* running out of fuel with less fuel *)
Lemma search_up_fuel_mono g ratio offset : forall f1 f2 mp t, (f1 <= f2)%nat ->
  search_up_g g f2 mp offset ratio t = Err E_FUEL ->
  exists t', search_up_g g f1 mp offset ratio t = Err E_FUEL /\ t' = t.
Proof.
  induction f1 as [|f1 IH]; intros f2 mp t Hle H.
  - exists t. split; [|reflexivity]. destruct f2; cbn [search_up_g] in *.
    + exact H.
    + destruct (mp <=? offset); [discriminate|reflexivity].
  - destruct f2 as [|f2]; [lia|]. cbn [search_up_g] in *.
    destruct (mp <=? offset); [discriminate|].
    destruct (dquo mp ratio) as [mp'|]; cbn in *; [|discriminate].
    destruct (g && negb (mp' <? mp)); [exists t; split; [exact H|reflexivity]|].
    destruct (IH f2 mp' (t + 1) ltac:(lia) H) as (t' & Ht' & _). exists t. split; [exact Ht'|reflexivity].
Qed.
Lemma search_down_fuel_mono g ratio offset : forall f1 f2 mp t, (f1 <= f2)%nat ->
  search_down_g g f2 mp offset ratio t = Err E_FUEL ->
  search_down_g g f1 mp offset ratio t = Err E_FUEL.
Proof.
  induction f1 as [|f1 IH]; intros f2 mp t Hle H.
  - destruct f2; cbn [search_down_g] in *; [exact H|].
    destruct (offset <=? mp); [discriminate|reflexivity].
  - destruct f2 as [|f2]; [lia|]. cbn [search_down_g] in *.
    destruct (offset <=? mp); [discriminate|].
    destruct (dmul mp ratio) as [mp'|]; cbn in *; [|discriminate].
    destruct (g && negb (mp <? mp')); [exact H|].
    apply (IH f2); [lia|exact H].
Qed.

(* ------------------------------------------------------------------ the bounds *)
(* price_ratio >= 1 + 10^-18 and an offset price that is not below the fixed point of the rounded
   map (ratio <= 2*d*offset; for ratio 1.0001 this is offset >= 5001 * 10^-18): the upward search
   from any price ends within search_up_bound = ceil(10^18/d) * log2(2*d*mp0 - ratio) steps, with
   or without the no-progress guard. *)
Theorem search_up_terminates g ratio offset mp t fuel :
  P + 1 <= ratio -> 0 <= offset -> ratio <= 2 * (ratio - P) * offset ->
  search_up_bound ratio mp <= Z.of_nat fuel ->
  search_up_g g fuel mp offset ratio t <> Err E_FUEL.
Proof.
  intros Hr Ho Hfix Hfuel H.
  set (d := ratio - P) in *. set (m := steps_to_double d).
  destruct (Z.leb_spec mp offset) as [Hle|Hgt].
  { destruct fuel; cbn [search_up_g] in H; destruct (Z.leb_spec mp offset); try discriminate; lia. }
  assert (Hmp : 0 <= mp) by lia.
  assert (HPhi0 : 2 * d <= Phi ratio mp).
  { unfold Phi. fold d. assert (2 * d * (offset + 1) <= 2 * d * mp) by (apply Z.mul_le_mono_nonneg_l; lia). lia. }
  set (k := Z.log2 (Phi ratio mp)).
  assert (Hk : 0 <= k) by apply Z.log2_nonneg.
  destruct (steps_to_double_spec d ltac:(lia)) as (Hm1 & _). fold m in Hm1.
  assert (Hbound : search_up_bound ratio mp = m * k) by reflexivity.
  destruct (search_up_fuel_mono g ratio offset (Z.to_nat (m * k)) fuel mp t ltac:(lia) H) as (_ & H' & _).
  destruct (search_up_out_of_fuel g ratio offset ltac:(lia) _ mp t Hmp H') as (mpf & Hof & Hinv).
  rewrite Z2Nat.id in Hinv by lia.
  assert (HPhif : 2 * d <= Phi ratio mpf).
  { unfold Phi. fold d. assert (2 * d * (offset + 1) <= 2 * d * mpf) by (apply Z.mul_le_mono_nonneg_l; lia). lia. }
  pose proof (ratio_pow_grows ratio k Hr Hk) as Hg. cbv zeta in Hg. fold d m in Hg.
  assert (HP : 0 < P) by reflexivity.
  assert (HPn : 0 < P ^ (m * k)) by (apply Z.pow_pos_nonneg; lia).
  assert (2 * (2 ^ k * P ^ (m * k)) <= Phi ratio mpf * ratio ^ (m * k)).
  { assert (2 * ratio ^ (m * k) <= Phi ratio mpf * ratio ^ (m * k)).
    { apply Z.mul_le_mono_nonneg_r; [apply Z.pow_nonneg; lia|lia]. }
    lia. }
  assert (Hc : 2 * 2 ^ k * P ^ (m * k) <= Phi ratio mp * P ^ (m * k)) by lia.
  assert (2 * 2 ^ k <= Phi ratio mp) by nia.
  pose proof (Z.log2_spec (Phi ratio mp) ltac:(lia)) as Hl. fold k in Hl.
  rewrite Z.pow_succ_r in Hl by lia. lia.
Qed.

(* downward search, started above the fixed point of the rounded map (10^18 < 2*d*mp0; for ratio
   1.0001 this is mp0 > 5000 * 10^-18): ends within ceil(10^18/d) * log2_up(2*d*offset - 10^18). *)
Theorem search_down_terminates g ratio offset mp t fuel :
  P + 1 <= ratio -> 0 <= mp -> P < 2 * (ratio - P) * mp ->
  search_down_bound ratio offset <= Z.of_nat fuel ->
  search_down_g g fuel mp offset ratio t <> Err E_FUEL.
Proof.
  intros Hr Hmp Hfix Hfuel H.
  set (d := ratio - P) in *. set (m := steps_to_double d).
  set (k := Z.log2_up (Psi ratio offset)).
  assert (Hk : 0 <= k) by apply Z.log2_up_nonneg.
  destruct (steps_to_double_spec d ltac:(lia)) as (Hm1 & _). fold m in Hm1.
  assert (Hbound : search_down_bound ratio offset = m * k) by reflexivity.
  pose proof (search_down_fuel_mono g ratio offset (Z.to_nat (m * k)) fuel mp t ltac:(lia) H) as H'.
  destruct (search_down_out_of_fuel g ratio offset ltac:(lia) _ mp t Hmp H') as (mpf & Hof & Hinv).
  rewrite Z2Nat.id in Hinv by lia.
  assert (HPsi0 : 1 <= Psi ratio mp) by (unfold Psi; fold d; lia).
  assert (HPsif : Psi ratio mpf + 2 * d <= Psi ratio offset).
  { unfold Psi. fold d. assert (2 * d * (mpf + 1) <= 2 * d * offset) by (apply Z.mul_le_mono_nonneg_l; lia). lia. }
  pose proof (ratio_pow_grows ratio k Hr Hk) as Hg. cbv zeta in Hg. fold d m in Hg.
  assert (HP : 0 < P) by reflexivity.
  assert (HPn : 0 < P ^ (m * k)) by (apply Z.pow_pos_nonneg; lia).
  assert (ratio ^ (m * k) <= Psi ratio mp * ratio ^ (m * k)).
  { assert (0 <= ratio ^ (m * k)) by (apply Z.pow_nonneg; lia). nia. }
  assert (2 ^ k * P ^ (m * k) <= Psi ratio mpf * P ^ (m * k)) by lia.
  assert (2 ^ k <= Psi ratio mpf) by nia.
  assert (2 ^ k < Psi ratio offset) by lia.
  destruct (Z_le_gt_dec (Psi ratio offset) 1) as [Hsmall|Hbig].
  - assert (1 <= 2 ^ k) by (apply Z.pow_le_mono_r with (b := 0) (c := k) (a := 2) in Hk; lia). lia.
  - pose proof (Z.log2_up_spec (Psi ratio offset) ltac:(lia)) as Hl. fold k in Hl. lia.
Qed.

(* the number of iterations is the distance of the returned tick from the start *)
Lemma search_up_ticks g ratio offset : forall fuel mp t t',
  search_up_g g fuel mp offset ratio t = Ok t' ->
  t <= t' <= t + Z.of_nat fuel /\
  (forall f, (Z.of_nat f < t' - t) -> search_up_g g f mp offset ratio t = Err E_FUEL).
Proof.
  induction fuel as [|fu IH]; intros mp t t' H; cbn [search_up_g] in H.
  - destruct (Z.leb_spec mp offset); [|discriminate]. injection H as <-. split; [lia|]. intros f Hf. lia.
  - destruct (Z.leb_spec mp offset) as [Hle|Hgt].
    + injection H as <-. split; [lia|]. intros f Hf. lia.
    + destruct (dquo mp ratio) as [mp'|] eqn:Hq; cbn in H; [|discriminate].
      destruct (g && negb (mp' <? mp)) eqn:Hg; [discriminate|].
      destruct (IH mp' (t + 1) t' H) as (Hr & Hall). split; [lia|].
      intros f Hf. destruct f as [|f]; cbn [search_up_g].
      * destruct (Z.leb_spec mp offset); [lia|reflexivity].
      * destruct (Z.leb_spec mp offset); [lia|]. rewrite Hq. cbn. rewrite Hg. apply Hall. lia.
Qed.

Corollary search_up_iterations g ratio offset mp t t' fuel :
  P + 1 <= ratio -> 0 <= offset -> ratio <= 2 * (ratio - P) * offset ->
  0 <= search_up_bound ratio mp ->
  search_up_g g fuel mp offset ratio t = Ok t' -> t' - t <= search_up_bound ratio mp.
Proof.
  intros Hr Ho Hfix Hb H. destruct (search_up_ticks g ratio offset fuel mp t t' H) as (_ & Hall).
  destruct (Z_le_gt_dec (t' - t) (search_up_bound ratio mp)) as [|Hgt]; [assumption|exfalso].
  specialize (Hall (Z.to_nat (search_up_bound ratio mp)) ltac:(lia)).
  revert Hall. apply search_up_terminates; try assumption. lia.
Qed.

Lemma search_down_ticks g ratio offset : forall fuel mp t t',
  search_down_g g fuel mp offset ratio t = Ok t' ->
  t - Z.of_nat fuel <= t' <= t /\
  (forall f, (Z.of_nat f < t - t') -> search_down_g g f mp offset ratio t = Err E_FUEL).
Proof.
  induction fuel as [|fu IH]; intros mp t t' H; cbn [search_down_g] in H.
  - destruct (Z.leb_spec offset mp); [|discriminate]. injection H as <-. split; [lia|]. intros f Hf. lia.
  - destruct (Z.leb_spec offset mp) as [Hle|Hgt].
    + injection H as <-. split; [lia|]. intros f Hf. lia.
    + destruct (dmul mp ratio) as [mp'|] eqn:Hq; cbn in H; [|discriminate].
      destruct (g && negb (mp <? mp')) eqn:Hg; [discriminate|].
      destruct (IH mp' (t - 1) t' H) as (Hr & Hall). split; [lia|].
      intros f Hf. destruct f as [|f]; cbn [search_down_g].
      * destruct (Z.leb_spec offset mp); [lia|reflexivity].
      * destruct (Z.leb_spec offset mp); [lia|]. rewrite Hq. cbn. rewrite Hg. apply Hall. lia.
Qed.

Corollary search_down_iterations g ratio offset mp t t' fuel :
  P + 1 <= ratio -> 0 <= mp -> P < 2 * (ratio - P) * mp ->
  0 <= search_down_bound ratio offset ->
  search_down_g g fuel mp offset ratio t = Ok t' -> t - t' <= search_down_bound ratio offset.
Proof.
  intros Hr Hmp Hfix Hb H. destruct (search_down_ticks g ratio offset fuel mp t t' H) as (_ & Hall).
  destruct (Z_le_gt_dec (t - t') (search_down_bound ratio offset)) as [|Hgt]; [assumption|exfalso].
  specialize (Hall (Z.to_nat (search_down_bound ratio offset)) ltac:(lia)).
  revert Hall. apply search_down_terminates; try assumption. lia.
Qed.

(* ------------------------------------------------------------------ inputs on which the loops as found never end *)
Lemma chop_round_mulP k : chop_round (k * P) = k.
Proof.
  assert (HP : 0 < P) by reflexivity.
  assert (Hpos : forall j, 0 <= j -> chop_round_pos (j * P) = j).
  { intros j Hj. unfold chop_round_pos. rewrite Z.mod_mul by lia. cbn. apply Z.div_mul. lia. }
  unfold chop_round. destruct (Z.ltb_spec (k * P) 0).
  - replace (- (k * P)) with ((- k) * P) by ring. rewrite Hpos by nia. lia.
  - apply Hpos. nia.
Qed.

Lemma dquo_by_one mp : Z.abs mp <= DEC_LIM -> dquo mp P = Some mp.
Proof.
  intros H. unfold dquo. cbn [Z.eqb P]. change (P =? 0) with false. cbv iota.
  replace (mp * (P * P)) with (mp * P * P) by ring. rewrite Z.quot_mul by discriminate.
  rewrite chop_round_mulP. unfold chk, Dec.in_range. destruct (Z.leb_spec (Z.abs mp) DEC_LIM); [reflexivity|lia].
Qed.

(* a fixed point of the rounded step: the loop as found never leaves it *)
Lemma search_up_stall ratio offset mp : dquo mp ratio = Some mp -> offset < mp ->
  forall fuel t, search_up_g false fuel mp offset ratio t = Err E_FUEL.
Proof.
  intros Hq Hgt. induction fuel as [|f IH]; intros t; cbn [search_up_g];
    destruct (Z.leb_spec mp offset); try lia; [reflexivity|].
  rewrite Hq. cbn [of_opt rbind andb]. apply IH.
Qed.
Lemma search_down_stall ratio offset mp : dmul mp ratio = Some mp -> mp < offset ->
  forall fuel t, search_down_g false fuel mp offset ratio t = Err E_FUEL.
Proof.
  intros Hq Hgt. induction fuel as [|f IH]; intros t; cbn [search_down_g];
    destruct (Z.leb_spec offset mp); try lia; [reflexivity|].
  rewrite Hq. cbn [of_opt rbind andb]. apply IH.
Qed.

(* price_ratio = 1: the upward search as found (no guard) never ends *)
Theorem price_ratio_one_diverges mp offset : offset < mp -> Z.abs mp <= DEC_LIM ->
  forall fuel t, search_up_g false fuel mp offset P t = Err E_FUEL.
Proof.
  intros Hgt Hr fuel t. apply search_up_stall; [apply dquo_by_one; exact Hr|exact Hgt].
Qed.
(* ... with the guard it ends at the first step *)
Theorem price_ratio_one_guarded mp offset fuel t : offset < mp -> Z.abs mp <= DEC_LIM ->
  search_up_g true (S fuel) mp offset P t = Err E_PRICE_OUT_OF_BOUND.
Proof.
  intros Hgt Hr. cbn [search_up_g]. destruct (Z.leb_spec mp offset); [lia|].
  rewrite dquo_by_one by exact Hr. cbn [of_opt rbind andb]. rewrite Z.ltb_irrefl. reflexivity.
Qed.

(* price_ratio <= 1: the downward search never ends (the price only falls) *)
Theorem price_ratio_le_one_diverges ratio offset : 0 < ratio <= P ->
  forall fuel mp t, 0 <= mp < offset -> mp <= DEC_LIM -> search_down_g false fuel mp offset ratio t = Err E_FUEL.
Proof.
  intros Hr fuel. induction fuel as [|f IH]; intros mp t Hmp Hlim; cbn [search_down_g];
    destruct (Z.leb_spec offset mp); try lia; [reflexivity|].
  assert (HP : 0 < P) by reflexivity.
  pose proof (chop_round_bracket (mp * ratio)) as Hb.
  assert (Hn : 0 <= chop_round (mp * ratio)) by (apply chop_round_nonneg; nia).
  assert (Hle : chop_round (mp * ratio) <= mp).
  { assert (chop_round (mp * ratio) * P <= mp * P + HALF) by nia. unfold P, HALF in *. lia. }
  unfold dmul, chk, Dec.in_range. destruct (Z.leb_spec (Z.abs (chop_round (mp * ratio))) DEC_LIM); [|lia].
  cbn [of_opt rbind andb]. apply IH; lia.
Qed.

(* the default ratio 1.0001, a price of 1024 * 10^-18 (first position: 10^33 base units against
   1 quote unit): 1024 * 1.0001 rounds back to 1024 *)
Definition RATIO_DEFAULT : Z := 1000100000000000000.
Definition tp_default : tick_params := {| price_ratio := RATIO_DEFAULT; base_offset := 0 |}.
Theorem tiny_price_default_ratio_diverges :
  first_position_search 1 (10 ^ 33) tp_default = Some (false, 1024, MULT) /\
  (forall fuel t, search_down_g false fuel 1024 MULT RATIO_DEFAULT t = Err E_FUEL) /\
  (forall fuel t, search_down (S fuel) 1024 MULT RATIO_DEFAULT t = Err E_PRICE_OUT_OF_BOUND).
Proof.
  split; [vm_compute; reflexivity|]. split.
  - intros fuel t. apply search_down_stall; [vm_compute; reflexivity|reflexivity].
  - intros fuel t. cbn [search_down]. change (MULT <=? 1024) with false. cbv iota.
    change (dmul 1024 RATIO_DEFAULT) with (Some 1024). reflexivity.
Qed.

(* ------------------------------------------------------------------ a lower bound (ratio barely above one) *)
Lemma dquo_total_ge_one mp ratio : 0 <= mp <= DEC_LIM -> P <= ratio -> exists r, dquo mp ratio = Some r.
Proof.
  intros Hmp Hr. assert (HP : 0 < P) by reflexivity. unfold dquo.
  destruct (Z.eqb_spec ratio 0); [lia|].
  assert (Hn : 0 <= mp * (P * P)) by nia.
  rewrite Z.quot_div_nonneg by lia. set (q := mp * (P * P) / ratio).
  assert (Hq : 0 <= q /\ q * ratio <= mp * (P * P)).
  { unfold q. split; [apply Z.div_pos; lia|]. pose proof (Z.mul_div_le (mp * (P * P)) ratio ltac:(lia)). lia. }
  assert (HqP : q <= mp * P) by nia.
  pose proof (chop_round_bracket q) as Hb. pose proof (chop_round_nonneg q ltac:(lia)) as Hc.
  assert (chop_round q <= mp).
  { assert (chop_round q * P <= mp * P + HALF) by lia. unfold P, HALF in *. lia. }
  unfold chk, Dec.in_range. destruct (Z.leb_spec (Z.abs (chop_round q)) DEC_LIM); [eexists; reflexivity|lia].
Qed.

Lemma search_up_lower_bound g ratio offset mp0 :
  P + 1 <= ratio -> 0 <= offset -> 2 * ratio <= offset * (ratio - P) -> 0 <= mp0 <= DEC_LIM ->
  forall fuel mp t, mp <= mp0 ->
    Z.of_nat fuel * (mp0 * (ratio - P) + ratio) < (mp - offset) * ratio ->
    search_up_g g fuel mp offset ratio t = Err E_FUEL.
Proof.
  intros Hr Ho Hbig Hlim. assert (HP : 0 < P) by reflexivity.
  remember (ratio - P) as d eqn:Hd. assert (Hd1 : 1 <= d) by lia.
  assert (HD : 0 < mp0 * d + ratio) by nia.
  induction fuel as [|f IH]; intros mp t Hle Hfuel; cbn [search_up_g].
  - destruct (Z.leb_spec mp offset); [nia|reflexivity].
  - assert (Hgt : offset < mp).
    { destruct (Z_le_gt_dec mp offset); [|lia].
      assert (0 <= Z.of_nat (S f) * (mp0 * d + ratio)) by (apply Z.mul_nonneg_nonneg; lia).
      assert ((mp - offset) * ratio <= 0) by nia. lia. }
    destruct (Z.leb_spec mp offset); [lia|].
    destruct (dquo_total_ge_one mp ratio ltac:(lia) ltac:(lia)) as (mp' & Hq). rewrite Hq. cbn [of_opt rbind].
    destruct (dquo_step mp ratio mp' ltac:(lia) ltac:(lia) Hq) as (Hu & Hl & Hn).
    assert (Hmd : 2 * ratio < mp * d).
    { assert ((offset + 1) * d <= mp * d) by (apply Z.mul_le_mono_nonneg_r; lia). lia. }
    assert (HmpP : mp * P = mp * ratio - mp * d) by (subst d; ring).
    assert (Hprog : mp' < mp).
    { destruct (Z_lt_ge_dec mp' mp); [assumption|exfalso].
      assert (2 * mp * ratio <= 2 * mp' * ratio) by (apply Z.mul_le_mono_nonneg_r; lia).
      lia. }
    replace (g && negb (mp' <? mp)) with false by (destruct g; cbn; [|reflexivity]; destruct (Z.ltb_spec mp' mp); [reflexivity|lia]).
    apply IH; [lia|].
    rewrite Nat2Z.inj_succ in Hfuel.
    assert (mp * d <= mp0 * d) by (apply Z.mul_le_mono_nonneg_r; lia).
    replace ((mp' - offset) * ratio) with (mp' * ratio - offset * ratio) by ring.
    replace ((mp - offset) * ratio) with (mp * ratio - offset * ratio) in Hfuel by ring.
    replace (Z.succ (Z.of_nat f) * (mp0 * d + ratio)) with (Z.of_nat f * (mp0 * d + ratio) + (mp0 * d + ratio)) in Hfuel by ring.
    lia.
Qed.

Theorem search_up_at_least g ratio offset mp t fuel :
  P + 1 <= ratio -> 0 <= offset -> 2 * ratio <= offset * (ratio - P) -> 0 <= mp <= DEC_LIM ->
  Z.of_nat fuel <= search_up_lower ratio mp offset ->
  search_up_g g fuel mp offset ratio t = Err E_FUEL.
Proof.
  intros Hr Ho Hbig Hmp Hf. apply (search_up_lower_bound g ratio offset mp); try assumption; try lia.
  assert (Hd1 : 1 <= ratio - P) by lia.
  unfold search_up_lower in Hf. set (D := mp * (ratio - P) + ratio) in *.
  assert (HD : 0 < D) by (unfold D; assert (HP : 0 < P) by reflexivity; nia).
  assert (Hdiv : (Z.of_nat fuel + 1) <= (mp - offset) * ratio / D) by lia.
  pose proof (Z.mul_div_le ((mp - offset) * ratio) D HD).
  assert (D * (Z.of_nat fuel + 1) <= D * ((mp - offset) * ratio / D)) by (apply Z.mul_le_mono_nonneg_l; lia).
  nia.
Qed.

(* price_ratio = 1 + 10^-18, first position 1000 base units against 2000 quote units (price 2):
   at least 4 * 10^17 iterations *)
Theorem price_ratio_next_to_one_astronomic g : exists mp,
  first_position_search 2000 1000 {| price_ratio := P + 1; base_offset := 0 |} = Some (true, mp, MULT) /\
  forall fuel t, Z.of_nat fuel <= 4 * 10 ^ 17 -> search_up_g g fuel mp MULT (P + 1) t = Err E_FUEL.
Proof.
  exists 2000000000000000000560908991588312401.
  split; [vm_compute; reflexivity|]. intros fuel t Hf.
  assert (Hlow : 4 * 10 ^ 17 <= search_up_lower (P + 1) 2000000000000000000560908991588312401 MULT)
    by (vm_compute; congruence).
  apply search_up_at_least.
  - lia.
  - vm_compute; congruence.
  - vm_compute; congruence.
  - split; vm_compute; congruence.
  - lia.
Qed.

(* ------------------------------------------------------------------ LegacyDec.Power *)
Lemma log2_halve i : 2 <= i -> Z.log2 i = 1 + Z.log2 (i / 2).
Proof.
  intros Hi. pose proof (Z.div_mod i 2 ltac:(lia)) as Hd. pose proof (Z.mod_pos_bound i 2 ltac:(lia)) as Hm.
  assert (Hq : 0 < i / 2) by lia.
  destruct (Z.eq_dec (i mod 2) 0) as [E|E].
  - replace i with (2 * (i / 2)) at 1 by lia. rewrite Z.log2_double by lia. lia.
  - replace i with (2 * (i / 2) + 1) at 1 by lia. rewrite Z.log2_succ_double by lia. lia.
Qed.

(* the square-and-multiply loop makes at most log2(power) passes: 63 for a uint64 *)
Lemma power_iters_le fuel : forall i, power_iters fuel i <= Z.log2 i.
Proof.
  induction fuel as [|f IH]; intros i; cbn [power_iters]; destruct (Z.leb_spec i 1);
    try (pose proof (Z.log2_nonneg i); lia).
  rewrite (log2_halve i) by lia. specialize (IH (i / 2)). lia.
Qed.
Theorem power_iters_uint64 fuel i : i < 2 ^ 64 -> power_iters fuel i <= 63.
Proof.
  intros Hi. pose proof (power_iters_le fuel i).
  destruct (Z_le_gt_dec i 0) as [Hn|Hp].
  - rewrite Z.log2_nonpos in H by lia. lia.
  - assert (Z.log2 i < 64) by (apply Z.log2_lt_pow2; lia). lia.
Qed.

(* the fuel of the model (70) is never what ends the loop for a uint64 power: with any two
   sufficient amounts of fuel the result is the same (None = overflow panic only) *)
Lemma power_loop_fuel f1 : forall f2 i d tmp, i < 2 ^ Z.of_nat f1 -> i < 2 ^ Z.of_nat f2 ->
  power_loop f1 i d tmp = power_loop f2 i d tmp.
Proof.
  induction f1 as [|f1 IH]; intros f2 i d tmp H1 H2.
  - cbn in H1. destruct f2; cbn [power_loop]; destruct (Z.leb_spec i 1); try reflexivity; lia.
  - destruct f2 as [|f2]; cbn [power_loop]; destruct (Z.leb_spec i 1); try reflexivity.
    + cbn in H2. lia.
    + rewrite Nat2Z.inj_succ, Z.pow_succ_r in H1, H2 by lia.
      assert (i / 2 < 2 ^ Z.of_nat f1) by (apply Z.div_lt_upper_bound; lia).
      assert (i / 2 < 2 ^ Z.of_nat f2) by (apply Z.div_lt_upper_bound; lia).
      destruct (if Z.odd i then dmul tmp d else Some tmp) as [tmp'|]; cbn [obind]; [|reflexivity].
      destruct (dmul d d) as [d'|]; cbn [obind]; [|reflexivity]. apply IH; assumption.
Qed.

(* ------------------------------------------------------------------ PowApprox *)
(* |base - 1| <= 1/2 and |exponent| < 1: every pass at least divides the term by 3/2, so the
   loop (term >= 10^-8) ends within 46 passes; the model's 4000 units of fuel are never used up *)
Lemma pow_term_step term c x i t' : 0 <= term -> 0 <= c <= i * P -> 0 <= x <= HALF -> 1 <= i ->
  (let? t1 := dmul term c in let? t2 := dmul t1 x in dquo t2 (i * P)) = Some t' ->
  0 <= t' /\ 2 * t' <= term + 2.
Proof.
  intros Ht Hc Hx Hi H. assert (HP : 0 < P) by reflexivity.
  destruct (dmul term c) as [t1|] eqn:E1; cbn [obind] in H; [|discriminate].
  destruct (dmul t1 x) as [t2|] eqn:E2; cbn [obind] in H; [|discriminate].
  pose proof (dmul_nonneg term c t1 Ht ltac:(lia) E1) as Ht1.
  pose proof (dmul_nonneg t1 x t2 Ht1 ltac:(lia) E2) as Ht2.
  pose proof (dmul_some _ _ _ E1) as S1. pose proof (chop_round_bracket (term * c)) as B1. rewrite <- S1 in B1.
  pose proof (dmul_some _ _ _ E2) as S2. pose proof (chop_round_bracket (t1 * x)) as B2. rewrite <- S2 in B2.
  destruct (dquo_step t2 (i * P) t' Ht2 ltac:(nia) H) as (Hu & _ & Hn). split; [exact Hn|].
  assert (Htc : term * c <= term * (i * P)) by (apply Z.mul_le_mono_nonneg_l; lia).
  assert (H1 : t1 <= term * i).
  { assert (t1 * P <= term * i * P + HALF) by lia. unfold P, HALF in *. lia. }
  assert (Htx : t1 * x <= t1 * HALF) by (apply Z.mul_le_mono_nonneg_l; lia).
  assert (H2 : 2 * t2 <= t1 + 1).
  { assert (t2 * P <= t1 * HALF + HALF) by lia. unfold P, HALF in *. lia. }
  assert (2 * t' * i * P <= 2 * t2 * P + i * P) by lia.
  assert (2 * t' * i <= 2 * t2 + i) by nia.
  assert (2 * t' * i <= term * i + 1 + i) by lia.
  assert (2 * t' * i <= (term + 2) * i) by nia.
  nia.
Qed.

Lemma pow_approx_loop_fuel fuel : forall i exponent x xneg term sum negative,
  1 <= i -> Z.abs exponent < P -> 0 <= x <= HALF -> 0 <= term ->
  term * 2 ^ Z.of_nat fuel < POW_PRECISION * 3 ^ Z.of_nat fuel ->
  pow_approx_loop fuel i exponent x xneg term sum negative <> None.
Proof.
  induction fuel as [|f IH]; intros i exponent x xneg term sum negative Hi He Hx Ht Hf;
    cbn [pow_approx_loop]; destruct (Z.ltb_spec term POW_PRECISION); try discriminate.
  - change (Z.of_nat 0) with 0 in Hf. rewrite !Z.pow_0_r in Hf. lia.
  - assert (HP : 0 < P) by reflexivity.
    destruct (abs_diff_sign exponent ((i - 1) * P)) as [[c cneg]|] eqn:Ea; [|discriminate].
    assert (Hc : 0 <= c <= i * P).
    { unfold abs_diff_sign in Ea. destruct (Z.leb_spec ((i - 1) * P) exponent).
      - destruct (dsub exponent ((i - 1) * P)) as [dd|] eqn:Ed; cbn [obind] in Ea; [|discriminate].
        injection Ea as <- _. apply dsub_some in Ed. unfold P in *. lia.
      - destruct (dadd (- exponent) ((i - 1) * P)) as [dd|] eqn:Ed; cbn [obind] in Ea; [|discriminate].
        injection Ea as <- _. apply dadd_some in Ed. unfold P in *. lia. }
    destruct (let? t1 := dmul term c in let? t2 := dmul t1 x in dquo t2 (i * P)) as [t'|] eqn:Et; [|discriminate].
    destruct (pow_term_step term c x i t' Ht Hc Hx Hi Et) as (Hn & Hh).
    destruct (t' =? 0); [discriminate|].
    destruct (if if cneg then negb (if xneg then negb negative else negative) else if xneg then negb negative else negative
              then dsub sum t' else dadd sum t'); [|discriminate].
    apply IH; try lia.
    rewrite Nat2Z.inj_succ, !Z.pow_succ_r in Hf by lia.
    assert (0 < 2 ^ Z.of_nat f) by (apply Z.pow_pos_nonneg; lia).
    assert (0 < 3 ^ Z.of_nat f) by (apply Z.pow_pos_nonneg; lia).
    assert (H3 : 3 * t' <= 2 * term) by (unfold POW_PRECISION in *; lia).
    assert (3 * t' * 2 ^ Z.of_nat f <= 2 * term * 2 ^ Z.of_nat f) by (apply Z.mul_le_mono_nonneg_r; lia).
    nia.
Qed.

Theorem pow_approx_terminates base exponent :
  HALF <= base <= P + HALF -> Z.abs exponent < P -> pow_approx base exponent <> None.
Proof.
  intros Hb He. unfold pow_approx.
  destruct (base <=? 0); [discriminate|]. destruct (exponent =? 0); [discriminate|].
  destruct (exponent =? HALF_DEC); [discriminate|].
  destruct (abs_diff_sign base P) as [[x xneg]|] eqn:Ea; [|discriminate].
  assert (Hx : 0 <= x <= HALF).
  { unfold abs_diff_sign in Ea. destruct (Z.leb_spec P base).
    - destruct (dsub base P) as [dd|] eqn:Ed; cbn [obind] in Ea; [|discriminate].
      injection Ea as <- _. apply dsub_some in Ed. lia.
    - destruct (dadd (- base) P) as [dd|] eqn:Ed; cbn [obind] in Ea; [|discriminate].
      injection Ea as <- _. apply dadd_some in Ed. unfold P, HALF in *. lia. }
  apply pow_approx_loop_fuel; [lia|exact He|exact Hx|discriminate|vm_compute; reflexivity].
Qed.

(* price_ratio = 2 with base offset -0.5 (both accepted by the first pool validation, commit
   117698b): PowApprox sums the binomial series of 2^(-1/2) at x = 1, whose terms decay like
   1/sqrt(n): after 4000 passes the term is still above 10^-8.  Reproduced on the real
   application: the first MsgCreatePosition of such a pool does not return (watchdog).
   With |ratio - 1| <= 1/2 ([pool_params_ok]) the loop ends within 46 passes
   ([pow_approx_terminates]). *)
Theorem pow_approx_ratio_two_does_not_converge :
  pool_params_ok_lower 10000000000000000 (2 * P) (- HALF) = true /\
  pow (2 * P) (- HALF) = None /\
  pool_params_ok 10000000000000000 (2 * P) (- HALF) = false.
Proof. repeat split; vm_compute; reflexivity. Qed.

(* parameters accepted by [pool_params_ok]: the power ratio^offset is computed without running
   out of fuel (its PowApprox part by [pow_approx_terminates]) *)
Theorem validated_pow_converges fee ratio offs :
  pool_params_ok fee ratio offs = true -> pow_approx ratio (offs - dtrunc_dec offs) <> None.
Proof.
  intros H. unfold pool_params_ok, pool_params_ok_lower, MIN_PRICE_RATIO, MAX_PRICE_RATIO in H.
  apply pow_approx_terminates.
  - unfold P, HALF. lia.
  - unfold dtrunc_dec. assert (HP : 0 < P) by reflexivity.
    pose proof (Z.quot_rem' offs P). pose proof (Z.rem_bound_abs offs P ltac:(lia)).
    replace (offs - Z.quot offs P * P) with (Z.rem offs P) by lia. lia.
Qed.
