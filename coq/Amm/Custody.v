(* C02 — AMM custody: definitions.  What a position is owed (by the module's own payout function),
   solvency of the pool account and of the fee account, conservation sums over the three bank
   accounts of a step, well-formedness of the dumped vectors, the non-owner predicate, the drain,
   and the full statements of the two global clauses.  No proofs here. *)
From Coq Require Import ZArith Bool List Sorting.Permutation.
Import ListNotations.
From Sunrise Require Import Base.Outcome Base.Dec Amm.Math Amm.Pool Amm.LiqDefs Amm.LiqSwap.
Local Open Scope Z_scope.

(* ---- vectors ---- *)
Definition len4 (v : vec) : Prop := length v = 4%nat.
Definition len4_b (v : vec) : bool := Nat.eqb (length v) 4.
Definition vnonneg (v : vec) : Prop := Forall (fun x => 0 <= x) v.
Definition vnonneg_b (v : vec) : bool := forallb (fun x => 0 <=? x) v.

(* every vector of the state has the four denom slots of the dump *)
Record WF (s : amm) : Prop := {
  wf_pool : len4 (a_bal_pool s);
  wf_fee : len4 (a_bal_fee s);
  wf_user : len4 (a_bal_user s);
  wf_acc : len4 (a_acc_value s);
  wf_ticks : Forall (fun t => len4 (t_growth t)) (a_ticks s);
  wf_aps : Forall (fun a => len4 (ap_value a) /\ len4 (ap_unclaimed a)) (a_acc_pos s)
}.
Definition wf_b (s : amm) : bool :=
  len4_b (a_bal_pool s) && len4_b (a_bal_fee s) && len4_b (a_bal_user s) && len4_b (a_acc_value s) &&
  forallb (fun t => len4_b (t_growth t)) (a_ticks s) &&
  forallb (fun a => len4_b (ap_value a) && len4_b (ap_unclaimed a)) (a_acc_pos s).

(* balances of the three accounts are non-negative *)
Definition BalNonneg (s : amm) : Prop :=
  vnonneg (a_bal_pool s) /\ vnonneg (a_bal_fee s) /\ vnonneg (a_bal_user s).
Definition bal_nonneg_b (s : amm) : bool :=
  vnonneg_b (a_bal_pool s) && vnonneg_b (a_bal_fee s) && vnonneg_b (a_bal_user s).

(* per denom: pool account + fee account + acting user *)
Definition total3 (s : amm) (d : Z) : Z := vget (a_bal_pool s) d + vget (a_bal_fee s) d + vget (a_bal_user s) d.
Definition custody2 (s : amm) (d : Z) : Z := vget (a_bal_pool s) d + vget (a_bal_fee s) d.

(* ---- what a position can withdraw now: the module's own payout function ---- *)
Definition owed_pair (p : pool) (pos : position) : option (Z * Z) :=
  match calc_actual_amounts p (pos_lower pos) (pos_upper pos) (- pos_liq pos) with
  | Ok (b, q) => Some (Z.abs (dtrunc_int b), Z.abs (dtrunc_int q))
  | _ => None
  end.
(* total owed to a list of positions (base, quote); None = some payout is not even computable
   (error / panic in the amount calculation: that position cannot exit) *)
Fixpoint owed_total (p : pool) (ps : list position) : option (Z * Z) :=
  match ps with
  | [] => Some (0, 0)
  | x :: r =>
    match owed_pair p x, owed_total p r with
    | Some (b, q), Some (tb, tq) => Some (b + tb, q + tq)
    | _, _ => None
    end
  end.

(* the pool account holds at least what all open positions can withdraw (base and quote) *)
Definition Solvent (s : amm) : Prop :=
  exists tb tq, owed_total (a_pool s) (a_positions s) = Some (tb, tq) /\
                tb <= vget (a_bal_pool s) 0 /\ tq <= vget (a_bal_pool s) 1.
Definition solvent_b (s : amm) : bool :=
  match owed_total (a_pool s) (a_positions s) with
  | Some (tb, tq) => (tb <=? vget (a_bal_pool s) 0) && (tq <=? vget (a_bal_pool s) 1)
  | None => false
  end.
(* slack of the pool account over the positions' claims (base, quote): the measured rounding surplus *)
Definition slack (s : amm) : Z * Z :=
  match owed_total (a_pool s) (a_positions s) with
  | Some (tb, tq) => (vget (a_bal_pool s) 0 - tb, vget (a_bal_pool s) 1 - tq)
  | None => (-1, -1)
  end.

(* the fee account holds at least what all open positions can claim now (GetClaimableFees, summed) *)
Fixpoint claim_sum (s : amm) (ps : list position) : option vec :=
  match ps with
  | [] => Some vzero
  | x :: r =>
    match claimable_fees s (pos_id x), claim_sum s r with
    | Ok c, Some v => Some (vplus c v)
    | _, _ => None
    end
  end.
Definition fee_solvent_b (s : amm) : bool :=
  match claim_sum s (a_positions s) with
  | Some v => vle v (a_bal_fee s)
  | None => false
  end.

(* ---- owner checks ---- *)
Definition not_owned (s : amm) (sender pid : Z) : bool :=
  match find_pos (a_positions s) pid with
  | Some pos => negb (pos_owner pos =? sender)
  | None => false
  end.
(* the message tries to reduce, or claim for, an existing position of somebody else *)
Definition non_owner_op (s : amm) (o : op) : bool :=
  match o with
  | ODecrease sender pid _ => not_owned s sender pid
  | OIncrease sender pid _ _ _ _ => not_owned s sender pid
  | OClaim sender ids => existsb (not_owned s sender) ids
  | _ => false
  end.
Definition op_sender (o : op) : option Z :=
  match o with
  | OCreate x _ _ _ _ _ _ | OIncrease x _ _ _ _ _ | ODecrease x _ _ | OClaim x _ => Some x
  | OSwap _ _ _ _ | OAllocate _ => None
  end.

(* ---- the drain: every position exits completely (DecreaseLiquidity collects the fees) ---- *)
Fixpoint drain (s : amm) (ids : list Z) : bool :=
  match ids with
  | [] => true
  | i :: tl =>
    match find_pos (a_positions s) i with
    | None => false
    | Some pos =>
      let '(s', r) := step s (ODecrease (pos_owner pos) i (pos_liq pos)) in
      is_ok r && drain s' tl
    end
  end.
(* the acting account of a drain step is the position's owner; the model carries one user balance,
   which for the exit is irrelevant (an exit only credits the user) *)

(* ---- full statements of the two global clauses (see Props/C02.v for what is proved) ---- *)
Definition Reach0 (s0 : amm) : Prop :=
  Inv s0 /\ WF s0 /\ BalNonneg s0 /\ a_positions s0 = [] /\ vget (a_bal_pool s0) 0 = 0 /\ vget (a_bal_pool s0) 1 = 0.

(* custody: after any history the pool account covers all positions, and the fee account all claims *)
Definition custody_full : Prop :=
  forall s0 ops, Reach0 s0 ->
    let s := run s0 ops in solvent_b s = true /\ fee_solvent_b s = true.
(* the same with an explicit rounding budget of [budget] units per executed operation *)
Definition custody_budget_full (budget : Z) : Prop :=
  forall s0 ops, Reach0 s0 ->
    let s := run s0 ops in
    exists tb tq, owed_total (a_pool s) (a_positions s) = Some (tb, tq) /\
      tb <= vget (a_bal_pool s) 0 + budget * Z.of_nat (length ops) /\
      tq <= vget (a_bal_pool s) 1 + budget * Z.of_nat (length ops).
(* exit liveness: after any history, withdrawing everything in any order never fails *)
Definition drain_full : Prop :=
  forall s0 ops ids, Reach0 s0 ->
    let s := run s0 ops in
    Permutation ids (map pos_id (a_positions s)) -> drain s ids = true.
