package c09

import (
	"fmt"
	"strings"
	"time"

	sdk "github.com/cosmos/cosmos-sdk/types"

	dakeeper "github.com/sunriselayer/sunrise/x/da/keeper"
	datypes "github.com/sunriselayer/sunrise/x/da/types"

	"verifharness/apph"
	"verifharness/emit"
)

// realHistory drives one long history through the real message handlers (PublishData,
// SubmitInvalidity, RegisterProofDeputy, SubmitValidityProof with real Groth16 proofs) and
// full FinalizeBlock/Commit blocks. Every block is observed: the projection is read just before
// the block (on a scratch context that already ran the staking end blocker, which precedes the
// DA end blocker in the block) and just after it.
type realHistory struct {
	w       *world
	r       *emit.Rand
	srv     datypes.MsgServer
	proofBz []byte
	hash    []byte
	seq     int
	msgHist map[string]int
	subs    []submission // every SubmitValidityProof of the current round
}

// submission records one SubmitValidityProof message and whether the handler stored it.
type submission struct {
	N        int
	Indices  []int64
	Accepted bool
	Err      string
}

func (s submission) coq() string {
	return fmt.Sprintf("CSubmit %d %s %s", s.N, zs(s.Indices), emit.Bool(s.Accepted))
}

func newRealHistory(w *world, r *emit.Rand) (*realHistory, error) {
	ctx := w.h.Ctx()
	params, err := w.h.App.DaKeeper.Params.Get(ctx)
	if err != nil {
		return nil, err
	}
	pb, hash, err := makeProof(params)
	if err != nil {
		return nil, fmt.Errorf("groth16 proof: %w", err)
	}
	params.SlashEpoch = 4
	params.SlashFraction = "0.01"
	if err := w.h.App.DaKeeper.Params.Set(ctx, params); err != nil {
		return nil, err
	}
	rh := &realHistory{w: w, r: r, srv: dakeeper.NewMsgServerImpl(w.h.App.DaKeeper), proofBz: pb, hash: hash, msgHist: map[string]int{}}
	// validator 2 (if any) proves through a deputy
	if len(w.vals) > 1 {
		err := apph.Tx(ctx, func(ctx sdk.Context) error {
			_, e := rh.srv.RegisterProofDeputy(ctx, &datypes.MsgRegisterProofDeputy{Sender: sdk.AccAddress(w.vals[1].op).String(), DeputyAddress: w.h.Accts[3].Addr.String()})
			return e
		})
		if err != nil {
			return nil, err
		}
	}
	return rh, nil
}

func errClass(err error) string {
	if err == nil {
		return "ok"
	}
	s := err.Error()
	switch {
	case strings.HasPrefix(s, "panic:"):
		return "panic"
	case strings.Contains(s, "proof indices overflow"):
		return "err:indices-overflow"
	case strings.Contains(s, "not bonded"):
		return "err:not-bonded"
	case strings.Contains(s, "proof period is over"):
		return "err:proof-period-over"
	case strings.Contains(s, "not in challenge"):
		return "err:not-challenging"
	case strings.Contains(s, "deputy"):
		return "err:deputy"
	case strings.Contains(s, "mismatch"):
		return "err:count-mismatch"
	}
	return "err:other"
}

func (rh *realHistory) msg(kind string, f func(ctx sdk.Context) error) error {
	err := apph.Tx(rh.w.h.Ctx(), f)
	rh.msgHist["msg:"+kind+":"+errClass(err)]++
	return err
}

// observedBlock runs one full block and returns its case.
func (rh *realHistory) observedBlock(dt time.Duration) (blockResult, error) {
	w := rh.w
	tNext := w.h.Time.Add(dt)
	scratch, _ := w.h.Ctx().CacheContext()
	pctx := ctxAt(scratch, w.h.Height+1, tNext)
	if _, err := w.h.App.StakingKeeper.EndBlocker(pctx); err != nil {
		return blockResult{}, err
	}
	pre := w.readPre(pctx)
	resp, err := w.h.Block(dt, nil)
	var obs blockObs
	if err != nil {
		// a panic or error in FinalizeBlock: the block is lost
		obs = w.readPost(w.h.Ctx(), pre, nil)
		obs.Panic, obs.PanicMsg = true, err.Error()
	} else {
		obs = w.readPost(w.h.Ctx(), pre, evtsOfABCI(resp.Events))
	}
	res := blockResult{Pre: pre, Obs: obs, Term: fmt.Sprintf("CBlock %s %s", pre.coq(), obs.coq(pre.IDs)),
		Info: map[string]any{"kind": "real-block", "height": w.h.Height, "pre": pre.info(), "observed": obs.info(pre.IDs)}}
	return res, nil
}

// round publishes items, challenges them, lets validators answer and returns the blocks run.
// flags: dup / oor submissions seen in this round.
func (rh *realHistory) round() (blocks []blockResult, dup, oor bool, err error) {
	w, r := rh.w, rh.r
	add := func(dt time.Duration) error {
		b, e := rh.observedBlock(dt)
		if e != nil {
			return e
		}
		blocks = append(blocks, b)
		return nil
	}
	ctx := w.h.Ctx()
	params, err := w.h.App.DaKeeper.Params.Get(ctx)
	if err != nil {
		return nil, false, false, err
	}
	// sometimes change the replication factor / fault threshold between rounds
	if r.Chance(1, 2) {
		params.ReplicationFactor = emit.Pick(r, "5", "3", "1.5", "2", "4.5", "1")
		params.SlashFaultThreshold = emit.Pick(r, "0.5", "0.34", "0.2", "0.75")
		if err := w.h.App.DaKeeper.Params.Set(ctx, params); err != nil {
			return nil, false, false, err
		}
	}
	// occasionally bring jailed validators back so that the history does not run out of validators
	for _, v := range w.vals {
		vi := w.vinfoOf(ctx, v)
		if vi.Exists && vi.Jailed && r.Chance(1, 2) {
			if e := w.h.App.StakingKeeper.Unjail(ctx, v.cons); e != nil {
				return nil, false, false, e
			}
			rh.msgHist["unjail"]++
		}
	}
	nItems := 1 + r.Intn(3)
	var uris []string
	var ns []int
	for i := 0; i < nItems; i++ {
		rh.seq++
		uri := fmt.Sprintf("c09/real/%04d", rh.seq)
		n := 2 + r.Intn(5)
		parity := uint64(r.Intn(n))
		hs := make([][]byte, n)
		for j := range hs {
			hs[j] = rh.hash
		}
		pub := w.h.Accts[r.Intn(2)].Addr.String()
		if e := rh.msg("publish", func(ctx sdk.Context) error {
			_, e := rh.srv.PublishData(ctx, &datypes.MsgPublishData{Sender: pub, MetadataUri: uri, ParityShardCount: parity, ShardDoubleHashes: hs})
			return e
		}); e != nil {
			return nil, false, false, fmt.Errorf("publish: %w", e)
		}
		// challengers dispute every shard so that the item certainly reaches Challenging
		nch := 1 + r.Intn(3)
		for c := 0; c < nch; c++ {
			var idx []int64
			for j := 0; j < n; j++ {
				if c == 0 || r.Bool() {
					idx = append(idx, int64(j))
				}
			}
			if len(idx) == 0 {
				idx = []int64{0}
			}
			ch := w.h.Accts[1+c].Addr.String()
			if e := rh.msg("invalidity", func(ctx sdk.Context) error {
				_, e := rh.srv.SubmitInvalidity(ctx, &datypes.MsgSubmitInvalidity{Sender: ch, MetadataUri: uri, Indices: idx})
				return e
			}); e != nil {
				return nil, false, false, fmt.Errorf("invalidity: %w", e)
			}
		}
		uris = append(uris, uri)
		ns = append(ns, n)
	}
	// next block moves them to Challenging
	if err := add(5 * time.Second); err != nil {
		return nil, false, false, err
	}
	// validators answer
	ctx = w.h.Ctx()
	for i, uri := range uris {
		n := ns[i]
		thr := w.threshold(ctx, n)
		for vi, v := range w.vals {
			var idx []int64
			var assigned []int64
			if thr != nil {
				assigned = datypes.ShardIndicesForValidator(v.op, int64(*thr), int64(n))
			}
			b := r.Intn(9)
			if vi == 0 {
				b = 2 // validator 1 always proves everything: it is never slashed
			}
			expectFail := false
			switch b {
			case 0:
				continue
			case 1, 8:
				idx = append(idx, assigned...)
			case 2, 3:
				for j := 0; j < n; j++ {
					idx = append(idx, int64(j))
				}
			case 4: // every assigned index twice
				for _, x := range assigned {
					idx = append(idx, x, x)
				}
				dup = dup || len(assigned) > 0
			case 5: // one index many times
				x := int64(r.Intn(n))
				for j := 0; j < 2+r.Intn(4); j++ {
					idx = append(idx, x)
				}
				dup = true
			case 6: // out of range: the whole message must be refused
				idx = append(append(idx, assigned...), int64(n))
				oor, expectFail = true, true
			case 7: // negative index: the handler panics, the transaction is rolled back
				idx = append(append(idx, assigned...), -1)
				oor, expectFail = true, true
			}
			proofs := make([][]byte, len(idx))
			for j := range proofs {
				proofs[j] = rh.proofBz
			}
			sender := sdk.AccAddress(v.op).String()
			if vi == 1 {
				sender = w.h.Accts[3].Addr.String() // the registered deputy
			}
			e := rh.msg("proof", func(ctx sdk.Context) error {
				_, e := rh.srv.SubmitValidityProof(ctx, &datypes.MsgSubmitValidityProof{Sender: sender, ValidatorAddress: v.op.String(), MetadataUri: uri, Indices: idx, Proofs: proofs})
				return e
			})
			_ = expectFail
			sub := submission{N: n, Indices: append([]int64{}, idx...), Accepted: e == nil}
			if e != nil {
				sub.Err = errClass(e)
			}
			rh.subs = append(rh.subs, sub)
			// proving twice: a second submission replaces the first
			if e == nil && r.Chance(1, 5) {
				rh.msg("proof-again", func(ctx sdk.Context) error {
					_, e := rh.srv.SubmitValidityProof(ctx, &datypes.MsgSubmitValidityProof{Sender: sender, ValidatorAddress: v.op.String(), MetadataUri: uri, Indices: idx, Proofs: proofs})
					return e
				})
			}
		}
	}
	// a block inside the proof period (nothing is due), then past the deadline
	if err := add(30 * time.Second); err != nil {
		return nil, false, false, err
	}
	if err := add(params.ProofPeriod + time.Duration(r.Intn(3))*time.Second); err != nil {
		return nil, false, false, err
	}
	if r.Chance(1, 2) {
		if err := add(5 * time.Second); err != nil {
			return nil, false, false, err
		}
	}
	return blocks, dup, oor, nil
}
