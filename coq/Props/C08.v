(* C08 - DA collateral is conserved: held while open, fully paid out on resolution.
   Only statements, each closed by [exact]; model Da/Da.v + Da/Collateral.v, proofs in
   Da/CollateralProofs.v.  Per denom d:
     open_coll d s  = sum over unresolved items of (publish collateral + #recorded invalidities *
                      invalidity collateral), both frozen at publication;
     excess d s b   = balance of the da module account - open_coll d s.
   The property says excess = accumulated division dust.  Two recorded findings break it and are
   excluded by trigger predicates (and exhibited by witnesses below):
     F1 trig_stuck_challengers     an item expires below the threshold with >= 1 invalidity record;
     F2 trig_reject_no_challenger  an item is rejected with no invalidity record (threshold 0).
   The tally verdict [vd] (which shards are safe) is C09's; every theorem holds for any verdict. *)
From Coq Require Import ZArith List.
Import ListNotations.
From Sunrise Require Import Base.Outcome Base.Dec Base.Bank Da.Da Da.DaProofs Da.Collateral Da.CollateralProofs.
Local Open Scope Z_scope.

(* A bank send moves exactly the coins named, from the sender to the recipient, nothing else. *)
Theorem C08_send_exact : forall b from to v b',
  send_vec b from to v = (b', true) ->
  forall a d, bal b' a d = bal b a d - (if a =? from then amt d v else 0) + (if a =? to then amt d v else 0).
Proof. exact send_vec_true. Qed.
Print Assumptions C08_send_exact.

(* Messages: whatever an accepted publish / challenge takes from its sender is exactly what the open
   collateral grows by (a repeated challenge is rejected, so nobody is charged twice); all other
   messages move no money.  Hence a message never changes the excess. *)
Theorem C08_message_keeps_excess : forall o now s b s' b',
  cwf s -> no_orphans s -> is_msg o = true -> sender_of o <> MODULE ->
  step repaired o now s b = Ok (s', b') ->
  forall d, excess d s' b' = excess d s b.
Proof. exact msg_excess. Qed.
Print Assumptions C08_message_keeps_excess.

(* Rejection: each of the k challengers receives its stake plus floor(publish collateral / k). *)
Theorem C08_payout_rejected : forall x vi b,
  item_ok x -> Forall (fun v => v_sender v <> MODULE) vi ->
  let k := Z.of_nat (length vi) in
  (forall d, amt d (i_pc x) + k * amt d (i_ic x) <= bal b MODULE d) ->
  forall d, bal (pay_rejected repaired b x vi) MODULE d = bal b MODULE d - k * (amt d (i_ic x) + share d x k).
Proof. exact pay_rejected_spec. Qed.
Print Assumptions C08_payout_rejected.

(* Verification by tally: right challengers refunded, wrong ones forfeit to the publisher, who is
   refunded: every posted unit leaves the module account, the send to the publisher succeeds. *)
Theorem C08_payout_verified : forall x vi safe b,
  item_ok x -> Forall (fun v => v_sender v <> MODULE) vi ->
  let k := Z.of_nat (length vi) in
  (forall d, amt d (i_pc x) + k * amt d (i_ic x) <= bal b MODULE d) ->
  exists b', pay_verified b x vi safe = (b', true) /\
             forall d, bal b' MODULE d = bal b MODULE d - (amt d (i_pc x) + k * amt d (i_ic x)).
Proof. exact pay_verified_spec. Qed.
Print Assumptions C08_payout_verified.

(* The dust a resolved item leaves behind is non-negative, at most its publish collateral, and
   smaller than its number of challengers. *)
Theorem C08_dust_less_than_challengers : forall d vd s x, item_ok x ->
  0 <= dust d vd s x <= amt d (i_pc x) /\
  (0 < n_invs (i_uri x) (s_invs s) -> dust d vd s x < n_invs (i_uri x) (s_invs s)).
Proof. exact dust_bounds. Qed.
Print Assumptions C08_dust_less_than_challengers.

(* Block end, exact account (no trigger assumed): no send fails, and the module balance and the open
   collateral move together except for the invalidity collateral of challengers whose item expired
   below the threshold ([stuck], finding F1) and the division dust of the items tallied. *)
Theorem C08_block_end_exact : forall vd now s b s' b',
  cwf s -> (forall d, 0 <= excess d s b) ->
  end_block repaired vd now s b = Ok (s', b') ->
  forall d, excess d s' b' = excess d s b + stuck d s now + dust_total d vd s now.
Proof. exact end_block_excess. Qed.
Print Assumptions C08_block_end_exact.

(* Block end, the property: off the two recorded findings the module account keeps holding exactly
   the open collateral plus dust, and a block end adds at most (#challengers - 1) per rejected item. *)
Theorem C08_holds_off_triggers : forall vd now s b s' b',
  cwf s -> (forall d, 0 <= excess d s b) ->
  trig_stuck_challengers s now = false -> trig_reject_no_challenger vd s now = false ->
  end_block repaired vd now s b = Ok (s', b') ->
  forall d, exists dust, excess d s' b' = excess d s b + dust /\ 0 <= dust <= dust_cap vd s now.
Proof. exact end_block_excess_bounded. Qed.
Print Assumptions C08_holds_off_triggers.

(* Nobody is left with a charge that can never be returned: off F1 a block end leaves no invalidity
   record behind whose item is resolved or gone (messages never do). *)
Theorem C08_no_unreturnable_charge_block : forall vd now s b s' b',
  cwf s -> (forall d, 0 <= excess d s b) -> no_orphans s -> trig_stuck_challengers s now = false ->
  end_block repaired vd now s b = Ok (s', b') -> no_orphans s'.
Proof. exact no_orphans_end_block. Qed.
Print Assumptions C08_no_unreturnable_charge_block.
Theorem C08_no_unreturnable_charge_msg : forall o now s b s' b',
  cwf s -> no_orphans s -> is_msg o = true -> step repaired o now s b = Ok (s', b') -> no_orphans s'.
Proof. exact no_orphans_msg. Qed.
Print Assumptions C08_no_unreturnable_charge_msg.

(* All histories: any interleaving of messages (signed by accounts), block ends at any times and
   validated parameter changes, along which no block end hits F1 / F2, keeps the invariants
   (well-formedness, no orphan record, module balance >= open collateral) and the module account
   holds the open collateral plus exactly the dust accumulated so far, which is bounded by the sum
   over the rejected items of (#challengers - 1). *)
Theorem C08_module_holds_open_collateral : forall h st,
  cinv st -> quiet_hist h st ->
  cinv (hrun h st) /\
  forall d, exists dust, excess d (fst (hrun h st)) (snd (hrun h st)) = excess d (fst st) (snd st) + dust /\
                         0 <= dust <= cap_hist h st.
Proof. exact hrun_cinv. Qed.
Print Assumptions C08_module_holds_open_collateral.

(* F1 (DESIGN 7 #9), on the repaired model = the real code: a challenge below the threshold, the
   item expires; the publisher is refunded, the challenger's record and 100 units stay for ever
   (the rule allows 0 dust here).  Reproduced on the real code: corpus "below-threshold-expiry". *)
Theorem C08_finding_1_stuck_challengers :
  trig_stuck_challengers f1_state f1_now = true /\
  match end_block repaired (code_verdict repaired (pr_rf w_prm)) f1_now f1_state (bank_of f_rows) with
  | Ok (s', b') =>
      status_after (Ok (s', b')) 1 = Some ST_VER /\
      orphans s' = [Iv 1 5 [0]] /\
      excess 0 s' b' = 100 /\
      dust_cap (code_verdict repaired (pr_rf w_prm)) f1_state f1_now = 0
  | _ => False
  end.
Proof. exact finding_stuck_challengers. Qed.
Print Assumptions C08_finding_1_stuck_challengers.
Theorem C08_finding_1_state_is_wellformed :
  cwf f1_state /\ no_orphans f1_state /\
  excess 0 f1_state (bank_of f_rows) = 0 /\ excess 1 f1_state (bank_of f_rows) = 0.
Proof. exact f1_wellformed. Qed.
Print Assumptions C08_finding_1_state_is_wellformed.

(* F2: with challenge threshold 0 an item can be rejected without any challenger; (with the C09
   repair of the division by zero) nobody receives the publisher's 1000 units. The code as found
   panics in EndBlock instead. *)
Theorem C08_finding_2_reject_no_challenger :
  trig_reject_no_challenger (code_verdict repaired (pr_rf f2_prm)) f2_state 20000000000 = true /\
  match end_block repaired (code_verdict repaired (pr_rf f2_prm)) 20000000000 f2_state (bank_of f2_rows) with
  | Ok (s', b') => status_after (Ok (s', b')) 1 = Some ST_REJ /\ excess 0 f2_state (bank_of f2_rows) = 0 /\
                   excess 0 s' b' = 1000 /\
                   dust_cap (code_verdict repaired (pr_rf f2_prm)) f2_state 20000000000 = 0
  | _ => False
  end.
Proof. exact finding_reject_no_challenger. Qed.
Print Assumptions C08_finding_2_reject_no_challenger.
Theorem C08_legacy_reject_no_challenger_panics :
  end_block legacy (code_verdict legacy (pr_rf f2_prm)) 20000000000 f2_state (bank_of f2_rows) = Panic.
Proof. exact legacy_reject_no_challenger_panics. Qed.
Print Assumptions C08_legacy_reject_no_challenger_panics.

(* Refuted for the code as found (DESIGN 7 #10): the same sender challenges the same item again, is
   charged again, and still has one record: 100 units nobody can ever get back.  Reproduced on the
   real code (corpus "repeated-challenge"); repaired by C08-reject-repeated-invalidity.patch. *)
Theorem C08_legacy_no_double_charge_refuted :
  match step legacy (OInval 5 1 [1]) 12000000000 f1_state (bank_of f_rows) with
  | Ok (s', b') => n_invs 1 (s_invs s') = 1 /\ bal b' 5 0 = bal (bank_of f_rows) 5 0 - 100 /\
                   excess 0 s' b' = excess 0 f1_state (bank_of f_rows) + 100
  | _ => False
  end.
Proof. exact legacy_double_charge. Qed.
Print Assumptions C08_legacy_no_double_charge_refuted.
Theorem C08_regression_second_challenge_rejected :
  step repaired (OInval 5 1 [1]) 12000000000 f1_state (bank_of f_rows) = Err E_DUP_INVALIDITY.
Proof. exact repaired_rejects_second_challenge. Qed.
Print Assumptions C08_regression_second_challenge_rejected.

(* non-vacuity: a well-formed state off both triggers whose item is rejected at the block end with
   two challengers: each gets 100 + floor(1001 / 2) = 600, one unit of dust stays, the records go *)
Example C08_nonvacuous :
  (cwf nv_state /\ no_orphans nv_state) /\
  trig_stuck_challengers nv_state 20000000000 = false /\
  trig_reject_no_challenger (code_verdict repaired (pr_rf w_prm)) nv_state 20000000000 = false /\
  match end_block repaired (code_verdict repaired (pr_rf w_prm)) 20000000000 nv_state (bank_of nv_rows) with
  | Ok (s', b') => status_after (Ok (s', b')) 1 = Some ST_REJ /\ excess 0 s' b' = 1 /\
                   bal b' 5 0 = 5600 /\ bal b' 6 0 = 5600 /\ s_invs s' = [] /\
                   dust_cap (code_verdict repaired (pr_rf w_prm)) nv_state 20000000000 = 1
  | _ => False
  end.
Proof. split; [exact nv_wellformed|exact nv_block]. Qed.
