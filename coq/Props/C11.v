(* C11 — IBC swap: funds conserved, one acknowledgement, only after every leg resolves.
   Only statements, each closed by [exact]; model in Swap/IbcSwap.v, proofs in Swap/IbcSwapProofs.v.

   [history_state b n es] is the state of the swap middleware, its two in-flight stores, the bank
   balances involved and the IBC core facts it depends on, after the events [es] (incoming packets,
   acknowledgements and timeouts of outgoing legs, in any order and any number) starting with empty
   stores, balances [b] and next send sequences [n]. The model is the code with the repairs
   notes/patches/C11-1..5 (configuration [fixed]); the last section shows each repair is needed.
   [wf_event]: the receiver of an incoming packet is an ordinary account, the fee-rate parameter
   passed Params.Validate, coin amounts are non-negative, exact-in consumes at most what it was given.
   Ghost fields: g_recv / g_sent / g_lock = amounts received / acknowledged as delivered / in flight,
   per denom; g_out = the final outcome the environment delivered to each leg. *)
From Coq Require Import ZArith List Bool.
Import ListNotations.
From Sunrise Require Import Base.Outcome Base.Dec Swap.IbcSwap Swap.IbcSwapProofs.
Local Open Scope Z_scope.

(* After every history: the swap module's own account is as it was, and what outgoing transfers hold
   locked (escrowed or burned, minus what incoming packets released) is exactly what is in flight plus
   what was acknowledged as delivered. *)
Theorem C11_funds_conserved : forall b n es d, Forall wf_event es ->
  let s := history_state b n es in
  bal s MOD d = b MOD d /\
  bal s ESC d - b ESC d = g_lock s d + g_sent s d - g_recv s d.
Proof. exact funds_conserved_history. Qed.
Print Assumptions C11_funds_conserved.

(* Every further message: each unit received is swapped (POOL), paid as interface fee (PROV),
   delivered to the account the message concerns (the receiver), in flight or sent onward; the module
   account does not move; no other account moves. *)
Theorem C11_funds_conserved_each_message : forall b n es e d, Forall wf_event es -> wf_event e ->
  let s := history_state b n es in let s' := apply fixed s e in let R := touches s e in
  g_recv s' d - g_recv s d =
    (bal s' POOL d - bal s POOL d) + (bal s' PROV d - bal s PROV d) + (bal s' R d - bal s R d) +
    (g_lock s' d - g_lock s d) + (g_sent s' d - g_sent s d)
  /\ bal s' MOD d = bal s MOD d
  /\ (forall a, other R a -> bal s' a d = bal s a d).
Proof. exact funds_conserved_next. Qed.
Print Assumptions C11_funds_conserved_each_message.

(* A refused packet (error acknowledgement) leaves the state as it was, plus the receipt and that
   acknowledgement. *)
Theorem C11_refused_keeps_nothing : forall b n es r s', Forall wf_event es ->
  let s := history_state b n es in
  rcpt s (r_key r) = false -> step fixed s (ERecv r) = Ok s' -> acks s' (r_key r) = Some AErr ->
  s' = refused_state s (r_key r).
Proof. exact refused_keeps_nothing_history. Qed.
Print Assumptions C11_refused_keeps_nothing.

(* An incoming packet has no acknowledgement and no record before it is received; once received it has
   either its acknowledgement or its pending record, never both; when none of its legs is in flight it
   has the acknowledgement; and no acknowledgement or timeout of a leg ever fails or panics (in
   particular a second acknowledgement is never attempted). IBC core stores at most one
   acknowledgement per packet. *)
Theorem C11_exactly_one_ack : forall b n es k, Forall wf_event es ->
  let s := history_state b n es in
  (rcpt s k = false -> acks s k = None /\ incs s k = None) /\
  (rcpt s k = true -> (acks s k <> None /\ incs s k = None) \/ (acks s k = None /\ incs s k <> None)) /\
  (rcpt s k = true -> (forall i p b', coms s i = Some p -> p_owner p <> Some (k, b')) -> acks s k <> None) /\
  (forall e, (match e with ERecv _ => False | _ => True end) -> exists s', step fixed s e = Ok s').
Proof. exact exactly_one_ack_history. Qed.
Print Assumptions C11_exactly_one_ack.

(* When the acknowledgement exists, no leg of that packet is in flight and its records are gone. *)
Theorem C11_ack_after_all_legs : forall b n es k, Forall wf_event es ->
  let s := history_state b n es in
  acks s k <> None ->
  incs s k = None /\ (forall i o, outs s i = Some o -> o_wait o <> k) /\
  (forall i p b', coms s i = Some p -> p_owner p <> Some (k, b')).
Proof. exact ack_after_all_legs_history. Qed.
Print Assumptions C11_ack_after_all_legs.

(* The combined acknowledgement carries, for each leg, the final outcome delivered to that leg (none if
   the leg never existed) ... *)
Theorem C11_ack_reports_each_leg : forall b n es k tin tout a0 ca fa, Forall wf_event es ->
  let s := history_state b n es in
  acks s k = Some (ASwap tin tout a0 ca fa) ->
  ca = leg_val (g_out s k false) /\ fa = leg_val (g_out s k true).
Proof. exact ack_reports_each_leg_history. Qed.
Print Assumptions C11_ack_reports_each_leg.

(* ... where "the final outcome delivered to a leg" is exactly: the acknowledgement relayed for the
   leg's live packet, or the timeout that found no retries left. *)
Theorem C11_outcomes_are_recorded : forall b n es e, Forall wf_event es ->
  let s := history_state b n es in
  match e with
  | ERecv _ => True
  | EAck i a =>
      match coms s i with
      | Some p => g_out (apply fixed s e) = gout_after p a (g_out s)
      | None => g_out (apply fixed s e) = g_out s
      end
  | ETimeout i =>
      match coms s i, outs s i with
      | Some p, Some o => g_out (apply fixed s e) =
                          if 0 <? o_retries o - 1 then g_out s else gout_after p ACK_TIMEOUT (g_out s)
      | _, _ => g_out (apply fixed s e) = g_out s
      end
  end.
Proof. exact outcomes_are_recorded_history. Qed.
Print Assumptions C11_outcomes_are_recorded.

(* With no leg in flight both in-flight stores are empty. *)
Theorem C11_records_gone : forall b n es, Forall wf_event es ->
  let s := history_state b n es in
  (forall i p, coms s i = Some p -> p_owner p = None) ->
  (forall k, incs s k = None) /\ (forall i, outs s i = None).
Proof. exact records_gone_history. Qed.
Print Assumptions C11_records_gone.

(* A timeout with retries left re-sends and refunds nothing; without retries left it refunds and
   nothing stays in flight. (Together with C11_funds_conserved: tokens are never both.) *)
Theorem C11_no_refund_and_resend : forall b n es i p o, Forall wf_event es ->
  let s := history_state b n es in
  coms s i = Some p -> outs s i = Some o ->
  let s' := apply fixed s (ETimeout i) in
  if 0 <? o_retries o - 1
  then bal s' = bal s /\ coms s' (fst i, nseq s (fst i)) = Some p /\ coms s' i = None /\ (forall d, g_lock s' d = g_lock s d)
  else bal s' = bmove (bal s) ESC (p_sender p) (p_denom p) (p_amt p) /\ g_lock s' = unlock s p.
Proof. exact no_refund_and_resend_history. Qed.
Print Assumptions C11_no_refund_and_resend.

(* ---------- the code as it was: each repair is needed (pre-fix witnesses; the same histories are the
   harness corpus and fail the monitors on the unrepaired code) ---------- *)
Theorem C11_blocked_prefix_refuted : forall c s r m, c_unblocked c = false -> exists e, recv_swap c s r m = Err e.
Proof. exact blocked_refuses_everything. Qed.
Print Assumptions C11_blocked_prefix_refuted.

Theorem C11_nil_keeper_fn_prefix_refuted :
  let c := only true false true true true in
  let s1 := apply c s_init (ERecv (mk_recv (ExIn 1) (Some (fwd0 0)) (100, 90))) in
  incs s1 (1, 7) <> None /\ step c s1 (EAck (0, 1) ACK_OK) = Panic /\ step c s1 (ETimeout (0, 1)) = Panic.
Proof. exact nil_keeper_fn_witness. Qed.
Print Assumptions C11_nil_keeper_fn_prefix_refuted.

Theorem C11_remainder_kept_prefix_refuted :
  let c := only true true false true true in
  bal (apply c s_init (ERecv (mk_recv (ExOut 50 None) None (60, 50)))) MOD 1 = 40 /\
  let s1 := apply c s_init (ERecv (mk_recv (ExOut 50 (Some (fwd0 1))) None (60, 50))) in
  bal s1 MOD 1 = 40 /\ bal s1 10 1 = 960 /\ bal s_init MOD 1 = 0.
Proof. exact remainder_kept_witness. Qed.
Print Assumptions C11_remainder_kept_prefix_refuted.

Theorem C11_one_ack_fills_both_prefix_refuted :
  let c := only true true true false true in
  let s1 := apply c s_init (ERecv (mk_recv (ExOut 50 (Some (fwd0 1))) (Some (fwd0 0)) (60, 50))) in
  let s2 := apply c s1 (EAck (1, 1) ACK_OK) in
  let s3 := apply c s2 (EAck (0, 1) 2) in
  acks s2 (1, 7) = Some (ASwap 60 50 ACK_OK ACK_OK ACK_OK) /\ coms s2 (0, 1) <> None /\ g_out s2 (1, 7) true = None /\
  outs s3 (0, 1) <> None /\ coms s3 (0, 1) = None.
Proof. exact one_ack_fills_both_witness. Qed.
Print Assumptions C11_one_ack_fills_both_prefix_refuted.

Theorem C11_stale_slot_prefix_refuted :
  let c := only true true true false true in
  let s1 := apply c s_init (ERecv (mk_recv (ExIn 1) (Some (fwd0 0)) (100, 90))) in
  let s3 := apply c (apply c s1 (ETimeout (0, 1))) (ETimeout (0, 2)) in
  (forall i, In i [(0, 1); (0, 2); (0, 3)] -> coms s3 i = None) /\ acks s3 (1, 7) = None /\ incs s3 (1, 7) <> None.
Proof. exact stale_slot_witness. Qed.
Print Assumptions C11_stale_slot_prefix_refuted.

Theorem C11_refund_and_resend_prefix_refuted :
  let c := only true true true true false in
  let s1 := apply c s_init (ERecv (mk_recv (ExIn 1) (Some (fwd0 0)) (100, 90))) in
  let s2 := apply c s1 (ETimeout (0, 1)) in
  coms s2 (0, 2) <> None /\ bal s2 10 2 = 90 /\ slack s2 2 = slack s1 2 - 90.
Proof. exact refund_and_resend_witness. Qed.
Print Assumptions C11_refund_and_resend_prefix_refuted.

(* non-vacuity: a concrete history (exact-out with change and forward; change acknowledged, forward
   timed out once, re-sent, then refused by the far end) meets every hypothesis above and exercises
   the deferred acknowledgement *)
Example C11_nonvacuous :
  let s1 := apply fixed s_init (ERecv (mk_recv (ExOut 50 (Some (fwd0 1))) (Some (fwd0 0)) (60, 50))) in
  let s2 := apply fixed s1 (EAck (1, 1) ACK_OK) in
  let s3 := apply fixed s2 (ETimeout (0, 1)) in
  let s4 := apply fixed s3 (EAck (0, 2) 2) in
  Inv s_init /\ wf_recv (mk_recv (ExOut 50 (Some (fwd0 1))) (Some (fwd0 0)) (60, 50)) /\
  incs s1 (1, 7) <> None /\ acks s2 (1, 7) = None /\ coms s3 (0, 2) <> None /\
  acks s4 (1, 7) = Some (ASwap 60 50 ACK_OK ACK_OK 2) /\ incs s4 (1, 7) = None /\ outs s4 (0, 2) = None /\
  bal s4 MOD 1 = 0 /\ bal s4 MOD 2 = 0 /\ bal s4 10 1 = 1000 /\ bal s4 10 2 = 50 /\ g_sent s4 1 = 40.
Proof. exact fixed_history_example. Qed.
