// Package c15: untrusted inputs are rejected with errors, never with panics.
// Drives the real memo decoder, metadata / route validation, the swap IBC middleware and
// every Msg / Query service method of the custom modules on the running application.
package c15

import (
	"bytes"
	"fmt"
	"math/big"
	"os"
	"reflect"
	"regexp"
	"sort"
	"strings"
	"time"

	sdkmath "cosmossdk.io/math"
	"github.com/consensys/gnark-crypto/ecc"
	native_mimc "github.com/consensys/gnark-crypto/ecc/bn254/fr/mimc"
	"github.com/consensys/gnark/backend/groth16"
	"github.com/consensys/gnark/frontend"
	"github.com/consensys/gnark/frontend/cs/r1cs"
	sdk "github.com/cosmos/cosmos-sdk/types"
	authtypes "github.com/cosmos/cosmos-sdk/x/auth/types"

	dakeeper "github.com/sunriselayer/sunrise/x/da/keeper"
	datypes "github.com/sunriselayer/sunrise/x/da/types"
	"github.com/sunriselayer/sunrise/x/da/zkp"
	likeeper "github.com/sunriselayer/sunrise/x/liquidityincentive/keeper"
	litypes "github.com/sunriselayer/sunrise/x/liquidityincentive/types"
	lpkeeper "github.com/sunriselayer/sunrise/x/liquiditypool/keeper"
	lptypes "github.com/sunriselayer/sunrise/x/liquiditypool/types"
	sdtypes "github.com/sunriselayer/sunrise/x/selfdelegation/types"
	sckeeper "github.com/sunriselayer/sunrise/x/shareclass/keeper"
	sctypes "github.com/sunriselayer/sunrise/x/shareclass/types"
	swaptypes "github.com/sunriselayer/sunrise/x/swap/types"
	tctypes "github.com/sunriselayer/sunrise/x/tokenconverter/types"

	"verifharness/apph"
	"verifharness/c15/shape"
	"verifharness/emit"
)

// outcome class of one call
const (
	clsOk    = "ok"
	clsErr   = "err"
	clsPanic = "panic"
)

// guard runs f under recover and classifies the outcome.
func guard(f func() error) (cls string, detail string) {
	defer func() {
		if r := recover(); r != nil {
			cls, detail = clsPanic, fmt.Sprint(r)
		}
	}()
	if err := f(); err != nil {
		return clsErr, err.Error()
	}
	return clsOk, ""
}

var digits = regexp.MustCompile(`[0-9]+`)

type world struct {
	h        *apph.H
	p        *pools
	ms       []method
	byKey    map[string]method
	orc      shape.Oracles
	valBytes []byte
	// notes of best-effort setup steps that failed (reported in stats)
	setupNotes []string
	// pool 4: the amount of base whose sale moves the price to (or just past) the edge tick -20
	edgeAmount int64
	// DA: real groth16 proofs for the three shards of the challenged item, and the deputy of the validator
	proofs [][]byte
	deputy string
	// scenario context (follow-up batteries) and the response of the last successful call
	over     *sdk.Context
	lastResp any
}

func must(err error) {
	if err != nil {
		panic(err)
	}
}

// setup builds the application state the handlers run against.  Liquidity pools in several
// states (the queries are driven with boundary values read from them, see probe.go):
//
//	0 urise/uusdc, 1 uusdc/uatom  base offset 0.5, one wide position each (price between ticks)
//	2 uatom/uosmo   base offset 0, first position with equal amounts: price exactly 1 = tick 0,
//	                second position starting at tick 0 (the price sits on an initialised tick)
//	3 urise/uatom   created, never had a position (no liquidity, sqrt price 0)
//	4 urise/uosmo   base offset 0, a narrow and a wide position; the amount of base that carries the
//	                price across the narrow position's lower tick is found by bisection
//	5 uusdc/uosmo   had one position which was removed completely (emptied pool)
//
// plus a gauge vote, a non-voting delegation, a published and a challenged DA item, a few blocks.
func setup() *world {
	h := apph.New(apph.Options{NumAccounts: 4})
	w := &world{h: h}
	ctx := h.Ctx()
	a0 := h.Accts[0].Addr.String()
	lp := lpkeeper.NewMsgServerImpl(h.App.LiquiditypoolKeeper)
	mkPool := func(base, quote, offset string) {
		must(apph.Tx(ctx, func(ctx sdk.Context) error {
			_, err := lp.CreatePool(ctx, &lptypes.MsgCreatePool{Authority: a0, DenomBase: base, DenomQuote: quote,
				FeeRate: "0.01", PriceRatio: "1.0001", BaseOffset: offset})
			return err
		}))
	}
	mkPos := func(id uint64, lo, hi int64, base, quote int64) uint64 {
		var pid uint64
		must(apph.Tx(ctx, func(ctx sdk.Context) error {
			res, err := lp.CreatePosition(ctx, &lptypes.MsgCreatePosition{Sender: a0, PoolId: id, LowerTick: lo, UpperTick: hi,
				TokenBase: sdk.NewInt64Coin(allPoolDenoms[id][0], base), TokenQuote: sdk.NewInt64Coin(allPoolDenoms[id][1], quote),
				MinAmountBase: sdkmath.ZeroInt(), MinAmountQuote: sdkmath.ZeroInt()})
			if err == nil {
				pid = res.Id
			}
			return err
		}))
		return pid
	}
	for id, d := range allPoolDenoms {
		mkPool(d[0], d[1], []string{"0.5", "0.5", "0", "0.5", "0", "0"}[id])
	}
	mkPos(0, -1000, 1000, 1_000_000_000, 1_000_000_000)
	mkPos(1, -1000, 1000, 1_000_000_000, 1_000_000_000)
	mkPos(2, -10, 10, 10_000, 10_000)
	mkPos(2, 0, 50, 10_000, 10_000) // tick 0 becomes an initialised tick while the price sits exactly on it
	mkPos(4, -20, 20, 1_000_000, 1_000_000)
	// pool 4: a second, wide position; then sell exactly as much base as moves the price onto the
	// lower edge of the narrow position (an initialised tick): found by bisection on the amount
	mkPos(4, -500, 500, 5_000_000, 5_000_000)
	{
		k := h.App.LiquiditypoolKeeper
		p4, _, err := k.GetPool(ctx, 4)
		must(err)
		target, err := lptypes.TickToSqrtPrice(-20, p4.TickParams)
		must(err)
		after := func(amount int64) sdkmath.LegacyDec {
			cctx, _ := ctx.CacheContext()
			if cls, det := guard(func() error {
				_, err := k.SwapExactAmountIn(cctx, h.Accts[1].Addr, p4, sdk.NewInt64Coin("urise", amount), "uosmo", true)
				return err
			}); cls != clsOk {
				if cls == clsPanic {
					w.setupNotes = append(w.setupNotes, fmt.Sprintf("pool 4: keeper swap of %d urise panicked: %s", amount, det))
				}
				return sdkmath.LegacyDec{}
			}
			q, _, _ := k.GetPool(cctx, 4)
			return sdkmath.LegacyMustNewDecFromStr(q.CurrentSqrtPrice)
		}
		lo, hi := int64(1), int64(100_000_000)
		for lo < hi {
			mid := (lo + hi) / 2
			if sp := after(mid); !sp.IsNil() && sp.GT(target) {
				lo = mid + 1
			} else {
				hi = mid
			}
		}
		w.edgeAmount = lo
		if sp := after(lo); !sp.IsNil() && sp.Equal(target) {
			must(apph.Tx(ctx, func(ctx sdk.Context) error {
				_, err := k.SwapExactAmountIn(ctx, h.Accts[1].Addr, p4, sdk.NewInt64Coin("urise", lo), "uosmo", true)
				return err
			}))
		} else {
			w.setupNotes = append(w.setupNotes, fmt.Sprintf("pool 4: no amount moves the price exactly onto tick -20 (closest %d)", lo))
		}
	}
	// pool 5: a position that is removed again
	p5 := mkPos(5, -50, 50, 500_000, 500_000)
	must(apph.Tx(ctx, func(ctx sdk.Context) error {
		pos, _, err := h.App.LiquiditypoolKeeper.GetPosition(ctx, p5)
		if err != nil {
			return err
		}
		_, err = lp.DecreaseLiquidity(ctx, &lptypes.MsgDecreaseLiquidity{Sender: a0, Id: p5, Liquidity: pos.Liquidity})
		return err
	}))
	// a gauge vote and a non-voting delegation (best effort: they only enrich the state)
	vals0, err := h.App.StakingKeeper.GetAllValidators(ctx)
	must(err)
	for _, f := range []func(ctx sdk.Context) error{
		func(ctx sdk.Context) error {
			_, err := likeeper.NewMsgServerImpl(h.App.LiquidityincentiveKeeper).VoteGauge(ctx, &litypes.MsgVoteGauge{Sender: a0,
				PoolWeights: []litypes.PoolWeight{{PoolId: 0, Weight: "0.6"}, {PoolId: 2, Weight: "0.4"}}})
			return err
		},
		func(ctx sdk.Context) error {
			_, err := sckeeper.NewMsgServerImpl(h.App.ShareclassKeeper).NonVotingDelegate(ctx, &sctypes.MsgNonVotingDelegate{
				Sender: h.Accts[1].Addr.String(), ValidatorAddress: vals0[0].OperatorAddress, Amount: sdk.NewInt64Coin("urise", 5_000_000)})
			return err
		},
	} {
		if err := apph.Tx(ctx, f); err != nil {
			w.setupNotes = append(w.setupNotes, "setup step failed: "+err.Error())
		}
	}
	da := dakeeper.NewMsgServerImpl(h.App.DaKeeper)
	must(apph.Tx(ctx, func(ctx sdk.Context) error {
		_, err := da.PublishData(ctx, &datypes.MsgPublishData{Sender: a0, MetadataUri: "ipfs://item0", ParityShardCount: 1,
			ShardDoubleHashes: [][]byte{{1, 2, 3}, {4, 5, 6}, {7, 8, 9}}})
		return err
	}))
	p := &pools{denoms: []string{"urise", "uvrise", "uusdc", "uatom", "uosmo"}, uris: []string{"ipfs://item0", "ipfs://none"}}
	for _, a := range h.Accts {
		p.accAddrs = append(p.accAddrs, a.Addr.String())
	}
	vals, err := h.App.StakingKeeper.GetAllValidators(ctx)
	must(err)
	for _, v := range vals {
		p.valAddrs = append(p.valAddrs, v.OperatorAddress)
	}
	p.authority = authtypes.NewModuleAddress("gov").String()
	w.p = p
	w.ms = allMethods(h)
	w.byKey = map[string]method{}
	for _, m := range w.ms {
		w.byKey[m.Key()] = m
	}
	vb, err := h.App.StakingKeeper.ValidatorAddressCodec().StringToBytes(p.valAddrs[0])
	must(err)
	w.valBytes = vb
	// a few blocks: epochs and gauges of x/liquidityincentive come into existence
	for i := 0; i < 12; i++ {
		if _, err := h.NextBlock(time.Second); err != nil {
			w.setupNotes = append(w.setupNotes, "block failed: "+err.Error())
			break
		}
	}
	// DA: an item that is being challenged, inside its proof period at the time the cases run (status
	// set through the keeper after the blocks above), whose shard double hashes are MiMC hashes with
	// real groth16 proofs from the chain's proving key (as the repository's tests build them); the
	// validator registers account 2 as its proof deputy
	ctx = h.Ctx()
	{
		params, err := h.App.DaKeeper.Params.Get(ctx)
		must(err)
		ccs, err := frontend.Compile(ecc.BN254.ScalarField(), r1cs.NewBuilder, &zkp.ValidityProofCircuit{})
		must(err)
		pk, err := zkp.UnmarshalProvingKey(params.ZkpProvingKey)
		must(err)
		var hashes [][]byte
		for _, pre := range []int64{111, 222, 333} {
			preImage := big.NewInt(pre)
			m := native_mimc.NewMiMC()
			m.Write(preImage.Bytes())
			hash := m.Sum(nil)
			wit, err := frontend.NewWitness(&zkp.ValidityProofCircuit{ShardHash: preImage, ShardDoubleHash: hash}, ecc.BN254.ScalarField())
			must(err)
			proof, err := groth16.Prove(ccs, pk, wit)
			must(err)
			var buf bytes.Buffer
			_, err = proof.WriteTo(&buf)
			must(err)
			hashes = append(hashes, hash)
			w.proofs = append(w.proofs, buf.Bytes())
		}
		must(h.App.DaKeeper.SetPublishedData(ctx, datypes.PublishedData{MetadataUri: "ipfs://challenged", ParityShardCount: 1,
			ShardDoubleHashes: hashes, Timestamp: h.Time, Status: datypes.Status_STATUS_CHALLENGING,
			Publisher: a0, PublishedTimestamp: h.Time}))
		w.deputy = h.Accts[2].Addr.String()
		must(apph.Tx(ctx, func(ctx sdk.Context) error {
			_, err := da.RegisterProofDeputy(ctx, &datypes.MsgRegisterProofDeputy{Sender: sdk.AccAddress(w.valBytes).String(), DeputyAddress: w.deputy})
			return err
		}))
	}
	acc := h.App.AuthKeeper.AddressCodec()
	valc := h.App.StakingKeeper.ValidatorAddressCodec()
	gov := authtypes.NewModuleAddress("gov")
	w.orc = shape.Oracles{
		AccOK: func(s string) bool { _, err := acc.StringToBytes(s); return err == nil },
		ValOK: func(s string) bool { _, err := valc.StringToBytes(s); return err == nil },
		IsAuth: func(s string) bool {
			bz, err := acc.StringToBytes(s)
			return err == nil && string(bz) == string(gov)
		},
	}
	return w
}

// stateCtx is the state the next call runs against: the committed state of the application, or
// the scenario context of a follow-up battery (a cache context that keeps the writes of the
// create / update message that started the scenario).
func (w *world) stateCtx() sdk.Context {
	if w.over != nil {
		return *w.over
	}
	return w.h.Ctx()
}

// callMethod runs one service method under recover: on a discarded cache context of the committed
// state, or - inside a scenario - on the scenario context itself (writes of successful calls stay).
func (w *world) callMethod(m method, req any) (string, string) {
	var ctx sdk.Context
	var write func()
	if w.over != nil {
		ctx, write = w.over.CacheContext()
	} else {
		ctx, _ = w.h.Ctx().CacheContext()
	}
	w.lastResp = nil
	cls, det := guard(func() error {
		resp, err := m.Call(ctx, req)
		if err == nil {
			w.lastResp = resp
		}
		return err
	})
	if cls == clsOk && write != nil {
		write()
	}
	return cls, det
}

// explore is a development aid: reflective fuzz of every method, panics grouped by message.
func explore(seed int64, n int) error {
	w := setup()
	defer w.h.Close()
	r := emit.NewRand(seed)
	type hit struct {
		count int
		req   string
	}
	hits := map[string]*hit{}
	counts := map[string]map[string]int{}
	for i := 0; i < n; i++ {
		m := w.ms[i%len(w.ms)]
		req := w.p.genRequest(r, m.In, m.Kind == "Query")
		cls, detail := w.callMethod(m, req)
		if counts[m.Key()] == nil {
			counts[m.Key()] = map[string]int{}
		}
		counts[m.Key()][cls]++
		if cls == clsPanic {
			d := detail
			if len(d) > 160 {
				d = d[:160]
			}
			k := m.Key() + " :: " + digits.ReplaceAllString(strings.Split(d, "\n")[0], "#")
			if hits[k] == nil {
				hits[k] = &hit{req: fmt.Sprintf("%+v", req)}
			}
			hits[k].count++
		}
	}
	keys := make([]string, 0, len(hits))
	for k := range hits {
		keys = append(keys, k)
	}
	sort.Strings(keys)
	for _, k := range keys {
		rq := hits[k].req
		if len(rq) > 400 {
			rq = rq[:400]
		}
		fmt.Printf("PANIC x%d %s\n    e.g. %s\n", hits[k].count, k, rq)
	}
	mk := make([]string, 0, len(counts))
	for k := range counts {
		mk = append(mk, k)
	}
	sort.Strings(mk)
	for _, k := range mk {
		fmt.Printf("%-60s %v\n", k, counts[k])
	}
	return nil
}

// ---------- direct SwapMetadata.Validate cases (Go values, including shapes no decoder produces) ----------

func (w *world) genMetaCase(r *emit.Rand) (*swaptypes.SwapMetadata, string) {
	m := w.genMeta(r, emit.Pick(r, "urise", "uusdc", "uatom"))
	switch r.Intn(14) {
	case 0, 1, 2, 3:
		return m, "valid"
	case 4:
		m.Route = nil
		return m, "nilroute"
	case 5:
		return m, "route:" + mutateRoute(r, m.Route, 0)
	case 6:
		m.AmountStrategy = nil
		return m, "nostrategy"
	case 7:
		m.AmountStrategy = &swaptypes.SwapMetadata_ExactAmountIn{}
		return m, "nilexactin"
	case 8:
		m.AmountStrategy = &swaptypes.SwapMetadata_ExactAmountOut{}
		return m, "nilexactout"
	case 9:
		m.AmountStrategy = &swaptypes.SwapMetadata_ExactAmountIn{ExactAmountIn: &swaptypes.ExactAmountIn{MinAmountOut: edgeInt(r)}}
		return m, "edgeminout"
	case 10:
		m.AmountStrategy = &swaptypes.SwapMetadata_ExactAmountOut{ExactAmountOut: &swaptypes.ExactAmountOut{AmountOut: edgeInt(r)}}
		return m, "edgeamountout"
	case 11:
		f := validForward(r)
		switch r.Intn(3) {
		case 0:
			f.Receiver = ""
		case 1:
			f.Port = emit.Pick(r, "", "a", "bad port", "transfer/x")
		default:
			f.Channel = emit.Pick(r, "", "c", "channel 1", strings.Repeat("c", 70))
		}
		m.Forward = f
		return m, "badforward"
	case 12:
		f := validForward(r)
		f.Channel = ""
		m.AmountStrategy = &swaptypes.SwapMetadata_ExactAmountOut{ExactAmountOut: &swaptypes.ExactAmountOut{AmountOut: sdkmath.NewInt(5), Change: f}}
		return m, "badchange"
	default:
		return m, "valid"
	}
}

func (w *world) runMeta(m *swaptypes.SwapMetadata, tag string) (string, map[string]any, string) {
	cls, det := guard(func() error { return m.Validate() })
	code := map[string]int{clsOk: 0, clsErr: 1, clsPanic: 2}[cls]
	info := map[string]any{"kind": "meta", "tag": tag, "meta": fmt.Sprintf("%v", m), "class": cls}
	if det != "" {
		info["detail"] = det
	}
	return fmt.Sprintf("CMeta %s %d", metaCoq(m), code), info, cls
}

// ---------- interface fee scenario: set the rate through the real MsgUpdateParams (persisted),
// then ask for an exact-out quote with the interface fee; the previous params are restored ----------

func (w *world) runFee(rate string) (string, map[string]any, []string) {
	ctx := w.h.Ctx()
	old, err := w.h.App.SwapKeeper.Params.Get(ctx)
	must(err)
	upd := w.byKey["swap.Msg.UpdateParams"]
	qry := w.byKey["swap.Query.CalculationSwapExactAmountOut"]
	ucls, udet := guard(func() error {
		return apph.Tx(ctx, func(c sdk.Context) error {
			_, e := upd.Call(c, &swaptypes.MsgUpdateParams{Authority: w.p.authority, Params: swaptypes.Params{InterfaceFeeRate: rate}})
			return e
		})
	})
	if strings.HasPrefix(udet, "panic:") {
		ucls = clsPanic
	}
	good := poolRoute("urise", "uusdc", 0)
	qcls, qdet := w.callMethod(qry, &swaptypes.QueryCalculationSwapExactAmountOutRequest{HasInterfaceFee: true, Route: &good, AmountOut: "1000"})
	must(w.h.App.SwapKeeper.Params.Set(ctx, old))
	code := map[string]int{clsOk: 0, clsErr: 1, clsPanic: 2}
	dec := "None"
	if d, err := sdkmath.LegacyNewDecFromStr(rate); err == nil {
		dec = emit.Some(emit.Z(d.BigInt()))
	}
	info := map[string]any{"kind": "fee", "rate": rate, "update": ucls, "update_detail": udet, "quote": qcls, "quote_detail": qdet}
	return fmt.Sprintf("CFee %s %d %d", dec, code[ucls], code[qcls]), info, []string{"fee update:" + ucls, "fee quote:" + qcls}
}

var feeRates = []string{"0", "0.01", "0.5", "0.999999999999999999", "1", "1.000000000000000001", "-0.1", "abc", "2", "0.000000000000000001", ""}

// ---------- corpus: the inputs that panicked before the repairs (they must now return errors) ----------

func (w *world) corpusMemos() []memoCase {
	// the packet carries urise back from the counterparty: on this chain it is urise again
	good := `"route":{"denom_in":"urise","denom_out":"uusdc","pool":{"pool_id":"0"}}`
	mk := func(memo, tag string) memoCase {
		return memoCase{memo: memo, tag: "corpus:" + tag, denom: "transfer/channel-7/urise", amount: "1000", receiver: w.p.accAddrs[1]}
	}
	return []memoCase{
		mk(`{"swap":1}`, "swap_not_object"),
		mk(`{"swap":"x"}`, "swap_string"),
		mk(`{"swap":[]}`, "swap_array"),
		mk(`{"swap":{"forward":1}}`, "forward_not_object"),
		mk(`{"swap":{"forward":"next"}}`, "forward_string"),
		mk(`{"swap":{}}`, "empty_swap_nil_route"),
		mk(`{"swap":{`+good+`,"exact_amount_in":{}}}`, "nil_min_amount_out"),
		mk(`{"swap":{`+good+`,"exact_amount_out":{}}}`, "nil_amount_out"),
		mk(`{"swap":{`+good+`}}`, "no_amount_strategy"),
		mk(`{"swap":{"route":{"denom_in":"urise","denom_out":"uusdc","pool":{}},"exact_amount_in":{"min_amount_out":"1"}}}`, "empty_pool"),
		mk(`{"swap":{"route":{"denom_in":"urise","denom_out":"urise","series":{"routes":[{"denom_in":"urise","denom_out":"uusdc","pool":{"pool_id":"0"}},{"denom_in":"uusdc","denom_out":"urise","pool":{"pool_id":"0"}}]}},"exact_amount_in":{"min_amount_out":"1"}}}`, "reuse"),
		mk(`{"swap":{"route":{"denom_in":"urise","denom_out":"uusdc","parallel":{"routes":[{"denom_in":"urise","denom_out":"uusdc","pool":{"pool_id":"0"}}],"weights":[]}},"exact_amount_in":{"min_amount_out":"1"}}}`, "parallel_no_weights"),
		mk(`{"swap":{"route":{"denom_in":"urise","denom_out":"u","pool":{"pool_id":"0"}},"exact_amount_in":{"min_amount_out":"1"}}}`, "one_char_denom"),
		mk(`{"swap":{`+good+`,"exact_amount_in":{"min_amount_out":"1"}}}`, "valid_exact_in"),
		mk(`{"swap":{`+good+`,"exact_amount_out":{"amount_out":"10"},"forward":{"receiver":"cosmos1x","port":"transfer","channel":"channel-2","next":{"wasm":{}}}}}`, "valid_forward_next"),
	}
}

func (w *world) corpusRoutes() []*swaptypes.Route {
	p := poolRoute("urise", "uusdc", 0)
	back := poolRoute("uusdc", "urise", 0)
	return []*swaptypes.Route{
		nil,
		{DenomIn: "urise", DenomOut: "urise", Strategy: &swaptypes.Route_Series{Series: &swaptypes.RouteSeries{Routes: []swaptypes.Route{p, back}}}},
		{DenomIn: "urise", DenomOut: "uusdc", Strategy: &swaptypes.Route_Pool{}},
		{DenomIn: "urise", DenomOut: "uusdc", Strategy: &swaptypes.Route_Series{}},
		{DenomIn: "urise", DenomOut: "uusdc", Strategy: &swaptypes.Route_Parallel{}},
		{DenomIn: "a", DenomOut: "uusdc", Strategy: &swaptypes.Route_Pool{Pool: &swaptypes.RoutePool{PoolId: 0}}},
		{DenomIn: "urise", DenomOut: "uusdc", Strategy: &swaptypes.Route_Parallel{Parallel: &swaptypes.RouteParallel{Routes: []swaptypes.Route{p, p}, Weights: []string{"1", "1"}}}},
		{DenomIn: "urise", DenomOut: "uusdc"},
		&p,
	}
}

type headCase struct {
	key string
	req any
	tag string
}

func (w *world) corpusHeads() []headCase {
	a0, a1 := w.p.accAddrs[0], w.p.accAddrs[1]
	val := w.p.valAddrs[0]
	good := poolRoute("urise", "uusdc", 0)
	par := func(ws ...string) *swaptypes.Route {
		return &swaptypes.Route{DenomIn: "urise", DenomOut: "uusdc", Strategy: &swaptypes.Route_Parallel{Parallel: &swaptypes.RouteParallel{Routes: []swaptypes.Route{good}, Weights: ws}}}
	}
	big := "60000000000000000000000000000000000000000000000000000000000000000000000000000"
	r := emit.NewRand(7)
	cv := w.base(r, "shareclass.Msg.CreateValidator").(*sctypes.MsgCreateValidator)
	cv.Amount.Amount = sdkmath.Int{}
	dap := w.base(r, "da.Msg.UpdateParams").(*datypes.MsgUpdateParams)
	dap.Params.PublishDataCollateral = sdk.Coins{{Denom: "urise"}}
	return []headCase{
		{"tokenconverter.Msg.Convert", &tctypes.MsgConvert{Sender: a0}, "nil_amount"},
		{"swap.Msg.SwapExactAmountIn", &swaptypes.MsgSwapExactAmountIn{Sender: a0, Route: good, MinAmountOut: sdkmath.OneInt()}, "nil_amount_in"},
		{"swap.Msg.SwapExactAmountOut", &swaptypes.MsgSwapExactAmountOut{Sender: a0, Route: good, MaxAmountIn: sdkmath.OneInt()}, "nil_amount_out"},
		{"swap.Msg.SwapExactAmountIn", &swaptypes.MsgSwapExactAmountIn{Sender: a0, Route: swaptypes.Route{DenomIn: "urise", DenomOut: "uusdc", Strategy: &swaptypes.Route_Pool{}}, AmountIn: sdkmath.OneInt(), MinAmountOut: sdkmath.OneInt()}, "nil_pool"},
		{"swap.Msg.SwapExactAmountIn", &swaptypes.MsgSwapExactAmountIn{Sender: a0, Route: poolRoute("a", "uusdc", 0), AmountIn: sdkmath.OneInt(), MinAmountOut: sdkmath.OneInt()}, "one_char_denom"},
		{"swap.Query.CalculationSwapExactAmountIn", &swaptypes.QueryCalculationSwapExactAmountInRequest{AmountIn: "5"}, "nil_route"},
		{"swap.Query.CalculationSwapExactAmountIn", &swaptypes.QueryCalculationSwapExactAmountInRequest{Route: par(), AmountIn: "5"}, "no_weights"},
		{"swap.Query.CalculationSwapExactAmountIn", &swaptypes.QueryCalculationSwapExactAmountInRequest{Route: par("1", "1"), AmountIn: "5"}, "more_weights"},
		{"swap.Query.CalculationSwapExactAmountOut", &swaptypes.QueryCalculationSwapExactAmountOutRequest{Route: &good, AmountOut: "-5"}, "negative_amount"},
		{"swap.Query.CalculationSwapExactAmountOut", &swaptypes.QueryCalculationSwapExactAmountOutRequest{Route: &swaptypes.Route{DenomIn: "urise", DenomOut: "uusdc", Strategy: &swaptypes.Route_Pool{}}, AmountOut: "5"}, "nil_pool"},
		{"swap.Msg.UpdateParams", &swaptypes.MsgUpdateParams{Authority: w.p.authority, Params: swaptypes.Params{InterfaceFeeRate: "1"}}, "fee_rate_one"},
		{"liquidityincentive.Query.Vote", &litypes.QueryVoteRequest{Address: "abc"}, "bad_address"},
		{"liquidityincentive.Msg.VoteGauge", &litypes.MsgVoteGauge{Sender: a0, PoolWeights: []litypes.PoolWeight{{PoolId: 0, Weight: big}, {PoolId: 1, Weight: big}}}, "weight_overflow"},
		{"shareclass.Query.CalculateShare", &sctypes.QueryCalculateShareRequest{ValidatorAddress: "u$d", Amount: sdkmath.OneInt()}, "bad_validator"},
		{"shareclass.Query.CalculateBondingAmount", &sctypes.QueryCalculateBondingAmountRequest{ValidatorAddress: val}, "nil_share"},
		{"shareclass.Msg.NonVotingUndelegate", &sctypes.MsgNonVotingUndelegate{Sender: a0, ValidatorAddress: val, Amount: sdk.Coin{Denom: "urise"}}, "nil_amount"},
		{"shareclass.Msg.NonVotingDelegate", &sctypes.MsgNonVotingDelegate{Sender: a0, ValidatorAddress: val, Amount: sdk.Coin{Denom: "urise", Amount: sdkmath.NewInt(-1)}}, "negative_amount"},
		{"shareclass.Msg.CreateValidator", cv, "nil_amount"},
		{"selfdelegation.Msg.SelfDelegate", &sdtypes.MsgSelfDelegate{Sender: a1}, "nil_amount"},
		{"selfdelegation.Msg.SelfDelegate", &sdtypes.MsgSelfDelegate{Sender: a1, Amount: sdkmath.NewInt(-1)}, "negative_amount"},
		{"liquiditypool.Msg.CreatePosition", &lptypes.MsgCreatePosition{Sender: a0, PoolId: 0, LowerTick: -10, UpperTick: 10, TokenBase: sdk.Coin{Denom: "urise"}, TokenQuote: sdk.Coin{Denom: "uusdc"}}, "nil_amounts"},
		{"liquiditypool.Msg.IncreaseLiquidity", &lptypes.MsgIncreaseLiquidity{Sender: a0, Id: 0}, "nil_amounts"},
		{"liquiditypool.Msg.CreatePool", &lptypes.MsgCreatePool{Authority: a0, DenomBase: "a", DenomQuote: "uusdc", FeeRate: "0.01", PriceRatio: "1.0001", BaseOffset: "0.5"}, "one_char_denom"},
		{"liquiditypool.Query.CalculationCreatePosition", &lptypes.QueryCalculationCreatePositionRequest{PoolId: 0, LowerTick: "-10", UpperTick: "18446744073709551616", Amount: "5", Denom: "urise"}, "tick_out_of_int64"},
		{"liquiditypool.Query.CalculationCreatePosition", &lptypes.QueryCalculationCreatePositionRequest{PoolId: 0, LowerTick: "-10", UpperTick: "10", Amount: "-5", Denom: "urise"}, "negative_amount"},
		{"da.Query.ZkpProofThreshold", &datypes.QueryZkpProofThresholdRequest{ShardCount: 1 << 63}, "shard_count_2_63"},
		{"da.Query.ValidatorShardIndices", &datypes.QueryValidatorShardIndicesRequest{ValidatorAddress: val, ShardCount: ^uint64(0)}, "shard_count_max"},
		{"da.Msg.SubmitValidityProof", &datypes.MsgSubmitValidityProof{Sender: sdk.AccAddress(w.valBytes).String(), ValidatorAddress: val, MetadataUri: "ipfs://challenged", Indices: []int64{-1}, Proofs: [][]byte{emptyProof()}}, "negative_index"},
		{"da.Msg.UpdateParams", dap, "nil_collateral_amount"},
	}
}

// mixSeed spreads consecutive seeds over the generator's cycle: emit.NewRand(k) and
// emit.NewRand(k+1) are the same splitmix stream shifted by one draw.
func mixSeed(seed int64) int64 {
	z := uint64(seed) + 0x9E3779B97F4A7C15
	z = (z ^ (z >> 30)) * 0xBF58476D1CE4E5B9
	z = (z ^ (z >> 27)) * 0x94D049BB133111EB
	return int64(z ^ (z >> 31))
}

const rule = "a case is non-trivial when the input got past the first validation of the function under test (for LiquidityBase/Quote: the two prices are equal or one ulp apart): memo = " +
	"encoding/json accepted it; route = not a nil pointer; metadata = the route was accepted; service method = accepted, or " +
	"rejected although the first validated field was valid. Distinct by (function, mutation kind, outcome class)"

// Run generates n cases from seed, runs them on the real application and writes
// cases_*.v and stats.json into outDir.
func Run(seed int64, n int, outDir string) error {
	if os.Getenv("C15_EXPLORE") != "" {
		return explore(seed, n)
	}
	w := setup()
	defer w.h.Close()
	r := emit.NewRand(mixSeed(seed))
	st := emit.NewStats("C15", seed, rule)
	cf := &emit.CasesFile{Import: "Sys.C15Check", Runner: "run_c15", Type: "c15_case"}
	add := func(term string, info map[string]any) {
		cf.Add(term)
		st.Info(info)
		st.Evaluations++
		if len(st.Samples) < 5 && st.Evaluations%37 == 1 {
			st.Sample(info)
		}
	}
	doMemo := func(c memoCase) {
		term, info, classes := w.runMemo(c)
		for _, k := range classes {
			st.Count("memo " + k)
		}
		add(term, info)
		if classes[0] != "decode:err" || !strings.Contains(fmt.Sprint(info["decode_err"]), "invalid character") {
			if parseJSON(c.memo) != nil {
				st.Nontriv("memo/" + strings.TrimPrefix(c.tag, "corpus:") + "/" + strings.Join(classes, ","))
			}
		}
	}
	doRoute := func(rt *swaptypes.Route, tag string) {
		term, info, cls := w.runRoute(rt, tag)
		st.Count("route " + cls)
		add(term, info)
		if rt != nil {
			st.Nontriv("route/" + tag + "/" + cls)
		}
	}
	doMeta := func(m *swaptypes.SwapMetadata, tag string) {
		term, info, cls := w.runMeta(m, tag)
		st.Count("meta " + cls)
		add(term, info)
		if rc, _ := guard(func() error { return m.Route.Validate() }); m.Route != nil && rc == clsOk {
			st.Nontriv("meta/" + tag + "/" + cls)
		}
	}
	var doHead func(key string, req any, tag string)
	lastCls := ""
	doHead = func(key string, req any, tag string) {
		m, ok := w.byKey[key]
		if !ok {
			panic("unknown method " + key)
		}
		term, info, cls := w.runHead(m, req, tag)
		lastCls = cls
		st.Count("call " + cls)
		st.Count("method " + key)
		add(term, info)
		if cls == clsOk || (cls == clsErr && !strings.HasPrefix(tag, "field:Sender") && !strings.HasPrefix(tag, "field:Authority") && !strings.HasPrefix(tag, "reflect") && tag != "nilreq") {
			st.Nontriv("call/" + key + "/" + tag + "/" + cls)
		}
	}

	// doScenario runs a create / update message in a scenario context and, when it is accepted,
	// the follow-up battery on the object / parameters it wrote, in that same context
	doScenario := func(c headCase) {
		m := w.byKey[c.key]
		sctx, _ := w.h.Ctx().CacheContext()
		w.over = &sctx
		defer func() { w.over = nil }()
		doHead(c.key, c.req, c.tag)
		if lastCls != clsOk || !isCreateOrUpdate(m) {
			return
		}
		resp := w.lastResp
		st.Count("scenario " + c.key)
		for _, f := range w.followUp(m, c.req, resp) {
			doHead(f.key, f.req, f.tag)
		}
		// put the parameters back (through the real message) and use the module once more
		if back := w.restoreParams(m); back != nil {
			doHead(c.key, back, "follow:"+m.Module+"."+m.Name+"/restore")
			for _, f := range w.moduleBattery(m, "restored", 1) {
				doHead(f.key, f.req, f.tag)
			}
		}
		if r, ok := resp.(*lptypes.MsgCreatePoolResponse); ok && r != nil {
			for _, f := range w.poolTail(m, r.Id) {
				doHead(f.key, f.req, f.tag)
			}
			for _, f := range w.poolDecreases(m, r.Id) {
				doHead(f.key, f.req, f.tag)
			}
		}
	}

	// corpus first
	for _, c := range w.corpusMemos() {
		doMemo(c)
	}
	for i, rt := range w.corpusRoutes() {
		doRoute(rt, fmt.Sprintf("corpus:%d", i))
	}
	for _, c := range w.corpusHeads() {
		doHead(c.key, c.req, "corpus:"+c.tag)
	}
	// state-dependent boundary requests: every query of every module, the tick / id / amount messages
	for _, c := range w.mustProbes() {
		doHead(c.key, c.req, c.tag)
	}
	// width-aliasing values in every integer place of every request that has a valid base
	for _, c := range w.aliasProbes() {
		doHead(c.key, c.req, c.tag)
	}
	anchors := w.anchors()
	// the ends of every validated interval (constants collected from the sources) in every decimal
	// place of every message; an accepted create / update is followed by its battery
	consts := boundConstants()
	st.Extra["bound_constants"] = len(consts)
	for _, c := range w.boundProbes(boundGrid(consts)) {
		doScenario(c)
	}
	// garbage-but-acceptable bytes / strings in every create / update message
	for _, c := range w.blobProbes() {
		doScenario(c)
	}
	for _, m := range w.ms {
		if isCreateOrUpdate(m) {
			if b := w.base(emit.NewRand(int64(len(m.Key()))+5), m.Key()); b != nil {
				doScenario(headCase{m.Key(), b, "valid"})
			}
		}
	}
	view := w.view()
	doLiq := func(base bool, amount sdkmath.Int, a, b sdkmath.LegacyDec) {
		term, info, k := w.runLiq(base, amount, a, b)
		st.Count(k)
		add(term, info)
		if a.Equal(b) || a.Sub(b).Abs().Equal(sdkmath.LegacySmallestDec()) {
			st.Nontriv(fmt.Sprintf("liq/%v/edge/%s", base, k))
		}
	}
	for _, base := range []bool{true, false} {
		doLiq(base, sdkmath.NewInt(1000), sdkmath.LegacyOneDec(), sdkmath.LegacyOneDec())
		doLiq(base, sdkmath.NewInt(1000), sdkmath.LegacyOneDec(), sdkmath.LegacyOneDec().Add(sdkmath.LegacySmallestDec()))
	}
	for _, rate := range feeRates {
		term, info, classes := w.runFee(rate)
		for _, k := range classes {
			st.Count(k)
		}
		add(term, info)
		st.Nontriv("fee/" + rate + "/" + strings.Join(classes, ","))
	}
	// every method once with its base request (or a reflective one) and once with a nil request for queries
	for _, m := range w.ms {
		req := w.base(r, m.Key())
		if req == nil {
			req = w.p.genRequest(r, m.In, false)
		}
		doHead(m.Key(), req, "base")
		if m.Kind == "Query" {
			doHead(m.Key(), reflect.Zero(m.In).Interface(), "nilreq")
		}
	}
	// generated stream
	for i := 0; i < n; i++ {
		switch k := r.Intn(100); {
		case k < 30:
			doMemo(w.genMemo(r))
		case k < 42:
			rt, tag := w.genAnyRoute(r)
			doRoute(rt, tag)
		case k < 50:
			m, tag := w.genMetaCase(r)
			doMeta(m, tag)
		case k < 56: // aliasing grid, anchors of the world included
			if c, ok := w.genAlias(r, anchors); ok {
				doHead(c.key, c.req, c.tag)
			}
		case k < 62: // boundary grid over the states of the world
			c := w.genProbe(r, &view)
			doHead(c.key, c.req, c.tag)
		case k < 66:
			doLiq(w.genLiq(r, &view))
		case k < 88: // structured: valid base, usually with one damaged field
			m := w.ms[r.Intn(len(w.ms))]
			req := w.base(r, m.Key())
			if req == nil {
				doHead(m.Key(), w.p.genRequest(r, m.In, m.Kind == "Query"), "reflect")
				continue
			}
			tag := "valid"
			if r.Chance(3, 4) {
				tag = w.mutate(r, req)
			}
			doHead(m.Key(), req, tag)
		default: // reflective: every field from the edge pools (search)
			m := w.ms[r.Intn(len(w.ms))]
			doHead(m.Key(), w.p.genRequest(r, m.In, m.Kind == "Query"), "reflect")
		}
	}
	if _, err := cf.Write(outDir, "cases", 250); err != nil {
		return err
	}
	st.Extra["methods"] = len(w.ms)
	st.Notes = append(st.Notes, w.setupNotes...)
	for _, pv := range view.pools {
		st.Notes = append(st.Notes, fmt.Sprintf("pool %d %s/%s: tick %d sqrt price %s liquidity %s", pv.pool.Id, pv.pool.DenomBase, pv.pool.DenomQuote,
			pv.pool.CurrentTick, pv.pool.CurrentSqrtPrice, pv.pool.CurrentTickLiquidity))
	}
	return st.Write(outDir)
}
