(* Proofs about the x/shareclass model (Stake/ShareClass.v) and its decimal arithmetic
   (Stake/ApdDec.v). *)
From Coq Require Import ZArith QArith Qround Qabs Bool List Lia Lqa ZifyBool.
Import ListNotations.
From Sunrise Require Import Base.Outcome Stake.ApdDec Stake.ShareClass.
Local Open Scope Z_scope.
Ltac Zify.zify_post_hook ::= Z.div_mod_to_equations.

(* ================= decimal digits ================= *)

Lemma pow10_pos k : 0 <= k -> 0 < 10 ^ k.
Proof. intros. apply Z.pow_pos_nonneg; lia. Qed.

Lemma ndig_aux_spec fuel : forall n, 0 < n -> n < 10 ^ Z.of_nat fuel ->
  1 <= ndig_aux fuel n /\ 10 ^ (ndig_aux fuel n - 1) <= n < 10 ^ ndig_aux fuel n.
Proof.
  induction fuel as [|f IH]; intros n Hn Hlt.
  - simpl in Hlt. lia.
  - cbn [ndig_aux]. destruct (Z.ltb_spec n 10) as [Hs|Hs].
    + split; [lia|]. change (10 ^ (1 - 1)) with 1. change (10 ^ 1) with 10. lia.
    + assert (H0 : 0 < n / 10) by (apply Z.div_str_pos; lia).
      assert (H1 : n / 10 < 10 ^ Z.of_nat f).
      { apply Z.div_lt_upper_bound; [lia|]. rewrite Nat2Z.inj_succ, Z.pow_succ_r in Hlt by lia. exact Hlt. }
      destruct (IH (n / 10) H0 H1) as [Hk [Hlo Hhi]].
      set (k := ndig_aux f (n / 10)) in *.
      split; [lia|].
      replace (1 + k - 1) with (Z.succ (k - 1)) by lia.
      replace (1 + k) with (Z.succ k) by lia.
      rewrite !Z.pow_succ_r by lia.
      pose proof (pow10_pos (k - 1) ltac:(lia)). pose proof (pow10_pos k ltac:(lia)).
      split; lia.
Qed.

Lemma ndig_spec n : 0 < n -> 1 <= ndig n /\ 10 ^ (ndig n - 1) <= n < 10 ^ ndig n.
Proof.
  intros Hn. unfold ndig. apply ndig_aux_spec; [exact Hn|].
  rewrite Nat2Z.inj_succ, Z2Nat.id by apply Z.log2_nonneg.
  destruct (Z.log2_spec n Hn) as [_ Hhi].
  eapply Z.lt_le_trans; [exact Hhi|].
  apply Z.pow_le_mono_l. lia.
Qed.

(* ================= rounding to 34 digits ================= *)

Lemma E33_pos : 0 < E33. Proof. reflexivity. Qed.

(* the scaled operands of rnd34_pos *)
Record scaled := { sc_a : Z; sc_b : Z; sc_n2 : Z; sc_d1 : Z }.
Definition scale (n d : Z) : scaled :=
  let dn := ndig n in
  let dd := ndig d in
  let a0 := if dn <? dd then dd - dn else 0 in
  let b := if dd <? dn then dn - dd else 0 in
  let n1 := n * 10 ^ a0 in
  let d1 := d * 10 ^ b in
  let lt := n1 <? d1 in
  {| sc_a := if lt then a0 + 1 else a0; sc_b := b; sc_n2 := if lt then n1 * 10 else n1; sc_d1 := d1 |}.

Lemma rnd34_pos_unfold n d :
  rnd34_pos n d =
  let s := scale n d in
  let num := sc_n2 s * E33 in
  let cr := if sc_d1 s <=? 2 * (num mod sc_d1 s) then num / sc_d1 s + 1 else num / sc_d1 s in
  (cr * 10 ^ sc_b s, 10 ^ sc_a s * E33).
Proof. reflexivity. Qed.

Lemma scale_spec n d : 0 < n -> 0 < d ->
  0 <= sc_a (scale n d) /\ 0 <= sc_b (scale n d) /\
  sc_n2 (scale n d) = n * 10 ^ sc_a (scale n d) /\ sc_d1 (scale n d) = d * 10 ^ sc_b (scale n d) /\
  0 < sc_d1 (scale n d) /\ sc_d1 (scale n d) <= sc_n2 (scale n d).
Proof.
  intros Hn Hd. destruct (ndig_spec n Hn) as [Hn1 [Hnlo Hnhi]]. destruct (ndig_spec d Hd) as [Hd1 [Hdlo Hdhi]].
  unfold scale. cbv zeta. set (dn := ndig n) in *. set (dd := ndig d) in *.
  assert (H100 : 10 ^ 0 = 1) by reflexivity. assert (H101 : 10 ^ (0 + 1) = 10) by reflexivity.
  destruct (Z.ltb_spec dn dd) as [Hc|Hc].
  - (* fewer digits in n: n is scaled up *)
    assert (Hb : (dd <? dn) = false) by (apply Z.ltb_ge; lia). rewrite Hb.
    rewrite H100, Z.mul_1_r.
    assert (Hp : 0 < 10 ^ (dd - dn)) by (apply pow10_pos; lia).
    assert (Hlow : 10 ^ (dd - 1) <= n * 10 ^ (dd - dn)).
    { replace (dd - 1) with ((dn - 1) + (dd - dn)) by lia. rewrite Z.pow_add_r by lia. nia. }
    assert (Hup : d < 10 * 10 ^ (dd - 1)).
    { rewrite <- Z.pow_succ_r by lia. replace (Z.succ (dd - 1)) with dd by lia. lia. }
    assert (Hs : 10 ^ (dd - dn + 1) = 10 ^ (dd - dn) * 10).
    { rewrite Z.pow_add_r by lia. reflexivity. }
    destruct (Z.ltb_spec (n * 10 ^ (dd - dn)) d) as [Hl|Hl]; cbn [sc_a sc_b sc_n2 sc_d1];
      rewrite ?Hs, ?H100; repeat split; try lia; ring.
  - destruct (Z.ltb_spec dd dn) as [Hc2|Hc2].
    + (* more digits in n: d is scaled up *)
      rewrite H100, Z.mul_1_r.
      assert (Hp : 0 < 10 ^ (dn - dd)) by (apply pow10_pos; lia).
      assert (Hup : d * 10 ^ (dn - dd) < 10 ^ dn).
      { replace dn with (dd + (dn - dd)) at 2 by lia. rewrite Z.pow_add_r by lia. nia. }
      assert (Hlow : 10 ^ dn <= 10 * n).
      { replace dn with (Z.succ (dn - 1)) at 1 by lia. rewrite Z.pow_succ_r by lia. lia. }
      destruct (Z.ltb_spec n (d * 10 ^ (dn - dd))) as [Hl|Hl]; cbn [sc_a sc_b sc_n2 sc_d1];
        rewrite ?H101, ?H100; repeat split; try lia; ring.
    + (* same number of digits *)
      assert (dn = dd) by lia. rewrite H100, !Z.mul_1_r.
      assert (Hlow : 10 ^ dn <= 10 * n).
      { replace dn with (Z.succ (dn - 1)) at 1 by lia. rewrite Z.pow_succ_r by lia. lia. }
      assert (Hlow2 : 10 ^ dd <= 10 * n) by (rewrite <- H; exact Hlow).
      destruct (Z.ltb_spec n d) as [Hl|Hl]; cbn [sc_a sc_b sc_n2 sc_d1];
        rewrite ?H101, ?H100; repeat split; try lia; ring.
Qed.

(* the result of rnd34_pos is within a relative 1/(2*10^33) of n/d, in cross-multiplied form *)
Lemma rnd34_pos_spec n d : 0 < n -> 0 < d ->
  let '(rn, rd) := rnd34_pos n d in
  0 < rn /\ 0 < rd /\ 2 * E33 * Z.abs (n * rd - rn * d) <= n * rd.
Proof.
  intros Hn Hd. rewrite rnd34_pos_unfold.
  destruct (scale_spec n d Hn Hd) as (Ha & Hb & Hn2 & Hd1 & Hd1p & Hle).
  set (s := scale n d) in *. cbv zeta.
  set (num := sc_n2 s * E33).
  pose proof E33_pos as HE.
  pose proof (pow10_pos (sc_a s) Ha) as Hpa. pose proof (pow10_pos (sc_b s) Hb) as Hpb.
  assert (Hnum : sc_d1 s * E33 <= num) by (unfold num; nia).
  pose proof (Z.div_mod num (sc_d1 s) ltac:(lia)) as Hdm.
  pose proof (Z.mod_pos_bound num (sc_d1 s) Hd1p) as Hmb.
  assert (Hq : E33 <= num / sc_d1 s).
  { apply Z.div_le_lower_bound; lia. }
  set (q := num / sc_d1 s) in *. set (r := num mod sc_d1 s) in *.
  (* n * rd - rn * d = (num - cr * d1) *)
  assert (Hkey : forall cr, n * (10 ^ sc_a s * E33) - cr * 10 ^ sc_b s * d = num - cr * sc_d1 s).
  { intros cr. unfold num. rewrite Hn2, Hd1. ring. }
  assert (Hnrd : n * (10 ^ sc_a s * E33) = num) by (unfold num; rewrite Hn2; ring).
  destruct (Z.leb_spec (sc_d1 s) (2 * r)) as [Hc|Hc].
  - split; [nia|]. split; [nia|]. rewrite Hkey, Hnrd.
    replace (num - (q + 1) * sc_d1 s) with (r - sc_d1 s) by lia.
    rewrite Z.abs_neq by lia. nia.
  - split; [nia|]. split; [nia|]. rewrite Hkey, Hnrd.
    replace (num - q * sc_d1 s) with r by lia.
    rewrite Z.abs_eq by lia. nia.
Qed.

(* exactness: when the scaled quotient has no remainder the value is unchanged *)
Lemma rnd34_pos_exact n d : 0 < n -> 0 < d ->
  (sc_n2 (scale n d) * E33) mod sc_d1 (scale n d) = 0 ->
  let '(rn, rd) := rnd34_pos n d in 0 < rd /\ rn * d = n * rd.
Proof.
  intros Hn Hd Hm. rewrite rnd34_pos_unfold.
  destruct (scale_spec n d Hn Hd) as (Ha & Hb & Hn2 & Hd1 & Hd1p & Hle).
  set (s := scale n d) in *. cbv zeta. rewrite Hm.
  destruct (Z.leb_spec (sc_d1 s) (2 * 0)) as [Hc|Hc]; [lia|].
  pose proof E33_pos. pose proof (pow10_pos (sc_a s) Ha).
  split; [nia|].
  pose proof (Z.div_mod (sc_n2 s * E33) (sc_d1 s) ltac:(lia)) as Hdm. rewrite Hm in Hdm.
  rewrite Hn2, Hd1 in Hdm. rewrite Hn2, Hd1.
  set (q := n * 10 ^ sc_a s * E33 / (d * 10 ^ sc_b s)) in *. nia.
Qed.

(* ================= value-level facts (Q) ================= *)
Local Open Scope Q_scope.

(* relative rounding error of dec128: half a unit in the 34th digit *)
Definition eta : Q := 1 # 2000000000000000000000000000000000.

Lemma eta_val : (Zpos 2000000000000000000000000000000000 = 2 * E33)%Z. Proof. reflexivity. Qed.

Lemma rnd34_zero x : Qnum x = 0%Z -> rnd34 x = 0.
Proof. intros H. unfold rnd34. rewrite H. reflexivity. Qed.

Lemma rnd34_pos_bounds x : 0 < x ->
  0 < rnd34 x /\ rnd34 x <= x * (1 + eta) /\ x * (1 - eta) <= rnd34 x.
Proof.
  destruct x as [n d]. unfold Qlt at 1. cbn [Qnum Qden]. rewrite Z.mul_1_r. intros Hn.
  destruct n as [|p|p]; try lia.
  unfold rnd34. cbn [Qnum Qden].
  pose proof (rnd34_pos_spec (Zpos p) (Zpos d) ltac:(lia) ltac:(lia)) as H.
  destruct (rnd34_pos (Zpos p) (Zpos d)) as [rn rd]. destruct H as (Hrn & Hrd & Hb).
  unfold mkq. cbn [fst snd].
  unfold Qminus. unfold Qlt, Qle, Qmult, Qplus, Qopp, eta. cbn [Qnum Qden].
  rewrite !Pos2Z.inj_mul, !Z2Pos.id by lia. rewrite eta_val. pose proof E33_pos.
  repeat split; [lia| |].
  - assert (Hx : ((rn * Zpos d - Zpos p * rd) * (2 * E33) <= Zpos p * rd)%Z).
    { destruct (Z.abs_spec (Zpos p * rd - rn * Zpos d)%Z) as [[_ Ha]|[_ Ha]]; rewrite Ha in Hb; nia. }
    nia.
  - assert (Hx : ((Zpos p * rd - rn * Zpos d) * (2 * E33) <= Zpos p * rd)%Z).
    { destruct (Z.abs_spec (Zpos p * rd - rn * Zpos d)%Z) as [[_ Ha]|[_ Ha]]; rewrite Ha in Hb; nia. }
    nia.
Qed.

Lemma inject_Z_minus x y : inject_Z (x - y) = inject_Z x - inject_Z y.
Proof. unfold Z.sub, Qminus. rewrite inject_Z_plus, inject_Z_opp. reflexivity. Qed.

Lemma Qnum_zero_eq x : Qnum x = 0%Z -> x == 0.
Proof. intros H. unfold Qeq. rewrite H. reflexivity. Qed.
Lemma Qnum_pos_lt x : (0 < Qnum x)%Z -> 0 < x.
Proof. intros H. unfold Qlt. cbn. lia. Qed.
Lemma Qnonneg_num x : 0 <= x -> (0 <= Qnum x)%Z.
Proof. unfold Qle. cbn. lia. Qed.

(* truncation *)
Lemma trim_bounds x : 0 <= x ->
  (0 <= trim x)%Z /\ inject_Z (trim x) <= x /\ x < inject_Z (trim x + 1).
Proof.
  intros Hx. apply Qnonneg_num in Hx. destruct x as [n d]. cbn [Qnum] in Hx.
  unfold trim. cbn [Qnum Qden]. rewrite Z.quot_div_nonneg by lia.
  unfold Qle, Qlt, inject_Z. cbn [Qnum Qden].
  pose proof (Z.div_mod n (Zpos d) ltac:(lia)). pose proof (Z.mod_pos_bound n (Zpos d) ltac:(lia)).
  assert (0 <= n / Zpos d)%Z by (apply Z.div_pos; lia).
  repeat split; nia.
Qed.

(* what a claim pays for an exact entitlement q >= 0: never negative, at most q (1 + eta) *)
Lemma pay_bounds q : 0 <= q ->
  (0 <= trim (rnd34 q))%Z /\ inject_Z (trim (rnd34 q)) <= q * (1 + eta).
Proof.
  intros Hq. pose proof (Qnonneg_num q Hq) as Hn.
  assert (He : 0 < 1 + eta) by reflexivity.
  destruct (Z.eq_dec (Qnum q) 0) as [Hz|Hz].
  - rewrite (rnd34_zero q Hz). split; [reflexivity|]. change (inject_Z (trim 0)) with 0.
    apply Qmult_le_0_compat; [exact Hq| apply Qlt_le_weak; exact He].
  - assert (Hp : 0 < q) by (apply Qnum_pos_lt; lia).
    destruct (rnd34_pos_bounds q Hp) as (Hr & Hu & _).
    destruct (trim_bounds (rnd34 q) (Qlt_le_weak _ _ Hr)) as (Ht0 & Htl & _).
    split; [exact Ht0|]. eapply Qle_trans; [exact Htl|exact Hu].
Qed.

(* (x - x) * y is literally a zero numerator: a claim right after a claim pays nothing *)
Lemma diff_self_num x y : Qnum ((x - x) * y) = 0%Z.
Proof. destruct x as [n d], y as [m e]. cbn. ring. Qed.

(* ================= finite sums over the users ================= *)
Fixpoint sumQ (f : Z -> Q) (l : list Z) : Q :=
  match l with [] => 0 | u :: tl => f u + sumQ f tl end.
Fixpoint sumZ (f : Z -> Z) (l : list Z) : Z :=
  match l with [] => 0%Z | u :: tl => (f u + sumZ f tl)%Z end.

Lemma sumQ_ext f g l : (forall u, In u l -> f u == g u) -> sumQ f l == sumQ g l.
Proof.
  induction l as [|a tl IH]; intros H; cbn; [reflexivity|].
  rewrite (H a (or_introl eq_refl)), IH; [reflexivity|]. intros u Hu. apply H. right. exact Hu.
Qed.
Lemma sumQ_le f g l : (forall u, In u l -> f u <= g u) -> sumQ f l <= sumQ g l.
Proof.
  induction l as [|a tl IH]; intros H; cbn; [apply Qle_refl|].
  apply Qplus_le_compat; [apply H; left; reflexivity| apply IH; intros u Hu; apply H; right; exact Hu].
Qed.
Lemma sumQ_nonneg f l : (forall u, In u l -> 0 <= f u) -> 0 <= sumQ f l.
Proof.
  induction l as [|a tl IH]; intros H; cbn; [apply Qle_refl|].
  replace 0 with (0 + 0) by reflexivity.
  apply Qplus_le_compat; [apply H; left; reflexivity| apply IH; intros u Hu; apply H; right; exact Hu].
Qed.
Lemma sumQ_scale k f l : sumQ (fun u => k * f u) l == k * sumQ f l.
Proof. induction l as [|a tl IH]; cbn; [ring| rewrite IH; ring]. Qed.
Lemma sumQ_plus f g l : sumQ (fun u => f u + g u) l == sumQ f l + sumQ g l.
Proof. induction l as [|a tl IH]; cbn; [ring| rewrite IH; ring]. Qed.
(* one entry changed *)
Lemma sumQ_upd f g l u : NoDup l -> In u l -> (forall u', u' <> u -> g u' == f u') ->
  sumQ g l == sumQ f l - f u + g u.
Proof.
  induction l as [|a tl IH]; intros Hnd Hin Hoth; [destruct Hin|].
  inversion Hnd as [|? ? Hna Hnd']; subst. cbn. destruct Hin as [->|Hin].
  - rewrite (sumQ_ext g f tl); [ring|]. intros u' Hu'. apply Hoth. intros ->. contradiction.
  - rewrite (IH Hnd' Hin Hoth). rewrite (Hoth a); [ring|]. intros ->. contradiction.
Qed.
Lemma sumQ_same f g l u : ~ In u l -> (forall u', u' <> u -> g u' == f u') -> sumQ g l == sumQ f l.
Proof. intros Hn Hoth. apply sumQ_ext. intros u' Hu'. apply Hoth. intros ->. contradiction. Qed.
Lemma sumQ_member_le f l u : (forall u', In u' l -> 0 <= f u') -> In u l -> f u <= sumQ f l.
Proof.
  induction l as [|a tl IH]; intros Hp Hin; [destruct Hin|]. cbn.
  assert (Ht : 0 <= sumQ f tl) by (apply sumQ_nonneg; intros; apply Hp; right; assumption).
  destruct Hin as [->|Hin].
  - lra.
  - pose proof (IH (fun u' H => Hp u' (or_intror H)) Hin). pose proof (Hp a (or_introl eq_refl)). lra.
Qed.

Lemma sumZ_inject f l : inject_Z (sumZ f l) == sumQ (fun u => inject_Z (f u)) l.
Proof. induction l as [|a tl IH]; cbn; [reflexivity| rewrite inject_Z_plus, IH; reflexivity]. Qed.
Lemma sumZ_same f g l : (forall u', In u' l -> g u' = f u') -> sumZ g l = sumZ f l.
Proof. induction l as [|a tl IH]; intros H; cbn; [reflexivity|]. rewrite H by (left; reflexivity). rewrite IH; [reflexivity|]. intros; apply H; right; assumption. Qed.
Lemma sumZ_upd f g l u : NoDup l -> In u l -> (forall u', u' <> u -> g u' = f u') ->
  sumZ g l = (sumZ f l - f u + g u)%Z.
Proof.
  induction l as [|a tl IH]; intros Hnd Hin Hoth; [destruct Hin|].
  inversion Hnd as [|? ? Hna Hnd']; subst. cbn. destruct Hin as [->|Hin].
  - rewrite (sumZ_same f g tl); [lia|]. intros u' Hu'. apply Hoth. intros ->. contradiction.
  - rewrite (IH Hnd' Hin Hoth). rewrite (Hoth a); [lia|]. intros ->. contradiction.
Qed.
Lemma sumZ_nonneg f l : (forall u, In u l -> (0 <= f u)%Z) -> (0 <= sumZ f l)%Z.
Proof. induction l as [|a tl IH]; intros H; cbn; [lia|]. pose proof (H a (or_introl eq_refl)). pose proof (IH (fun u Hu => H u (or_intror Hu))). lia. Qed.
Lemma sumZ_member_le f l u : (forall u', In u' l -> (0 <= f u')%Z) -> In u l -> (f u <= sumZ f l)%Z.
Proof.
  induction l as [|a tl IH]; intros Hp Hin; [destruct Hin|]. cbn.
  pose proof (sumZ_nonneg f tl (fun u' H => Hp u' (or_intror H))).
  destruct Hin as [->|Hin]; [lia|].
  pose proof (IH (fun u' H => Hp u' (or_intror H)) Hin). pose proof (Hp a (or_introl eq_refl)). lia.
Qed.

(* ================= one validator's reward accounting ================= *)
Lemma mem_In d l : mem d l = true <-> In d l.
Proof.
  unfold mem. rewrite existsb_exists. split.
  - intros (x & Hx & He). apply Z.eqb_eq in He. subst. exact Hx.
  - intros H. exists d. split; [exact H| apply Z.eqb_refl].
Qed.
Lemma mem_false d l : mem d l = false <-> ~ In d l.
Proof. rewrite <- mem_In. destruct (mem d l); intuition congruence. Qed.

Lemma all_ok_inv f ds : all_ok f ds = Ok tt -> forall d, In d ds -> f d = Ok tt.
Proof.
  induction ds as [|a tl IH]; intros H d Hd; [destruct Hd|]. cbn in H.
  destruct (f a) as [[]| |] eqn:Ha; cbn in H; try discriminate.
  destruct Hd as [<-|Hd]; [exact Ha| apply IH; assumption].
Qed.
Lemma all_ok_intro f ds : (forall d, In d ds -> f d = Ok tt) -> all_ok f ds = Ok tt.
Proof.
  induction ds as [|a tl IH]; intros H; [reflexivity|]. cbn.
  rewrite (H a (or_introl eq_refl)). cbn. apply IH. intros d Hd. apply H. right. exact Hd.
Qed.
Lemma all_ok_unit f ds r : all_ok f ds = Ok r -> r = tt.
Proof. destruct r. reflexivity. Qed.

Definition kappa : Q := (1 + eta) * (1 + eta) - 1.
Lemma eta_pos : 0 < eta. Proof. reflexivity. Qed.
Lemma kappa_pos : 0 < kappa. Proof. reflexivity. Qed.

Section Cell.
Variables (denoms users : list Z).
Hypothesis NDd : NoDup denoms.
Hypothesis NDu : NoDup users.

(* exact entitlement not yet claimed *)
Definition owed (c : cell) (u d : Z) : Q := (cM c d - cchk c u d) * inject_Z (csh c u).

(* share accounting of one validator *)
Definition SI (c : cell) : Prop :=
  cT c = sumZ (csh c) users /\ (forall u, (0 <= csh c u)%Z) /\
  (forall u, ~ In u users -> csh c u = 0%Z) /\ cmodsh c = 0%Z.

(* reward accounting of one validator and denom; R = received by the reward saver so far *)
Definition RI (c : cell) (d : Z) (R : Z) : Prop :=
  (forall u, cchk c u d <= cM c d) /\ (0 <= cS c d)%Z /\ (cS c d <= R)%Z /\
  (1 + eta) * sumQ (fun u => owed c u d) users <= inject_Z (cS c d) + kappa * inject_Z R.

Lemma owed_nonneg c u d : SI c -> (forall u, cchk c u d <= cM c d) -> 0 <= owed c u d.
Proof.
  intros (_ & Hs & _) Hc. unfold owed. apply Qmult_le_0_compat.
  - specialize (Hc u). lra.
  - change 0 with (inject_Z 0). rewrite <- Zle_Qle. apply Hs.
Qed.

Lemma RI_mono c d R R' : (R <= R')%Z -> RI c d R -> RI c d R'.
Proof.
  intros HR (H1 & H2 & H3 & H4). repeat split; try assumption; try lia.
  assert (inject_Z R <= inject_Z R') by (rewrite <- Zle_Qle; exact HR).
  pose proof kappa_pos. nra.
Qed.

(* the amount a claim pays in one denom *)
Lemma payv_eq c u d :
  payv c u d = if (0 <? cS c d)%Z then match trim_int (rnd34 (owed c u d)) with Some z => z | None => 0%Z end else 0%Z.
Proof.
  unfold payv, pay_of, calc_reward, trim_res, dmul, dsub, owed.
  destruct (0 <? cS c d)%Z; [|reflexivity].
  destruct (trim_int _); reflexivity.
Qed.
Lemma trim_int_val x z : trim_int x = Some z -> z = trim x.
Proof. unfold trim_int. destruct (Z.abs (trim x) <? BITS256)%Z; intros H; [injection H as <-; reflexivity|discriminate]. Qed.

Lemma payv_bounds c u d : 0 <= owed c u d ->
  (0 <= payv c u d)%Z /\ inject_Z (payv c u d) <= (1 + eta) * owed c u d.
Proof.
  intros Ho. rewrite payv_eq. destruct (pay_bounds _ Ho) as [Hp0 Hp1].
  assert (Hz : 0 <= (1 + eta) * owed c u d).
  { apply Qmult_le_0_compat; [|exact Ho]. pose proof eta_pos; lra. }
  destruct (0 <? cS c d)%Z; [|split; [lia|exact Hz]].
  destruct (trim_int (rnd34 (owed c u d))) as [z|] eqn:Ht; [|split; [lia|exact Hz]].
  apply trim_int_val in Ht. subst z. split; [exact Hp0|]. rewrite Qmult_comm. exact Hp1.
Qed.

(* shape of a successful claim *)
Lemma claim_cell_inv c u c' : claim_cell denoms c u = Ok c' ->
  (forall d, In d denoms -> (0 <= payv c u d <= cS c d)%Z) /\
  c' = mkCell (cT c) (csh c) (cmodsh c) (cB c) (csd c) (cent c)
              (fun d => if mem d denoms then (cS c d - payv c u d)%Z else cS c d)
              (cM c) (fun u' d => if (u' =? u)%Z then cM c d else cchk c u' d).
Proof.
  unfold claim_cell. intros H.
  destruct (all_ok _ denoms) as [[]| |] eqn:H1; cbn in H; try discriminate.
  destruct (all_ok (fun d => if (cS c d <? payv c u d)%Z then _ else _) denoms) as [[]| |] eqn:H2; cbn in H; try discriminate.
  injection H as <-. split; [|reflexivity].
  intros d Hd. pose proof (all_ok_inv _ _ H1 d Hd) as Ha. pose proof (all_ok_inv _ _ H2 d Hd) as Hb.
  cbn in Ha, Hb. unfold payv in *. destruct (pay_of c u d) as [p| |]; try discriminate.
  destruct (Z.ltb_spec p 0); try discriminate. destruct (Z.ltb_spec (cS c d) p); try discriminate. lia.
Qed.

Lemma claim_SI c u c' : SI c -> claim_cell denoms c u = Ok c' -> SI c'.
Proof. intros H Hc. destruct (claim_cell_inv _ _ _ Hc) as [_ ->]. exact H. Qed.

Lemma owed_after_claim c u c' d : claim_cell denoms c u = Ok c' ->
  Qnum (owed c' u d) = 0%Z /\ forall u', u' <> u -> owed c' u' d = owed c u' d.
Proof.
  intros Hc. destruct (claim_cell_inv _ _ _ Hc) as [_ ->]. unfold owed. cbn [cM cchk csh]. split.
  - rewrite Z.eqb_refl. apply diff_self_num.
  - intros u' Hu. destruct (Z.eqb_spec u' u); [contradiction|reflexivity].
Qed.

Lemma claim_RI c u c' d R : SI c -> RI c d R -> In u users -> claim_cell denoms c u = Ok c' -> RI c' d R.
Proof.
  intros HS (Hc & HS0 & HSR & Hsum) Hu Hcl.
  destruct (owed_after_claim c u c' d Hcl) as [Hz Hoth].
  destruct (claim_cell_inv _ _ _ Hcl) as [Hpay Hc'].
  pose proof (owed_nonneg c u d HS Hc) as Hou.
  destruct (payv_bounds c u d Hou) as [Hp0 Hp1].
  assert (Hsum' : sumQ (fun u0 => owed c' u0 d) users == sumQ (fun u0 => owed c u0 d) users - owed c u d).
  { rewrite (sumQ_upd (fun u0 => owed c u0 d) (fun u0 => owed c' u0 d) users u NDu Hu).
    - rewrite (Qnum_zero_eq _ Hz). ring.
    - intros u' Hu'. rewrite (Hoth u' Hu'). reflexivity. }
  assert (HS' : cS c' d = if mem d denoms then (cS c d - payv c u d)%Z else cS c d) by (rewrite Hc'; reflexivity).
  assert (HM : cM c' = cM c) by (rewrite Hc'; reflexivity).
  assert (Hchk : forall u', cchk c' u' d = if (u' =? u)%Z then cM c d else cchk c u' d) by (intros; rewrite Hc'; reflexivity).
  repeat split.
  - intros u'. rewrite HM, Hchk. destruct (u' =? u)%Z; [apply Qle_refl|apply Hc].
  - rewrite HS'. destruct (mem d denoms) eqn:Hm; [|exact HS0]. apply mem_In in Hm. specialize (Hpay d Hm). lia.
  - rewrite HS'. destruct (mem d denoms); lia.
  - rewrite Hsum', HS'. destruct (mem d denoms).
    + rewrite inject_Z_minus. lra.
    + pose proof eta_pos. nra.
Qed.

(* a claim succeeds whenever the invariant holds with less than one unit of rounding slack *)
Lemma claim_cell_succeeds c u (R : Z -> Z) : SI c -> In u users ->
  (forall d, In d denoms -> RI c d (R d) /\ kappa * inject_Z (R d) < 1) ->
  exists c', claim_cell denoms c u = Ok c'.
Proof.
  intros HS Hu HR.
  assert (Hpay : forall d, In d denoms ->
            pay_of c u d = Ok (payv c u d) /\ (0 <= payv c u d <= cS c d)%Z).
  { intros d Hd. destruct (HR d Hd) as [(Hc & HS0 & HSR & Hsum) Hk].
    pose proof (owed_nonneg c u d HS Hc) as Hou.
    destruct (payv_bounds c u d Hou) as [Hp0 Hp1].
    assert (Hle : owed c u d <= sumQ (fun u0 => owed c u0 d) users).
    { apply (sumQ_member_le (fun u0 => owed c u0 d)); [|exact Hu]. intros u' _. apply owed_nonneg; assumption. }
    assert (Hlt : inject_Z (payv c u d) < inject_Z (cS c d + 1)).
    { rewrite inject_Z_plus. change (inject_Z 1) with 1. pose proof eta_pos. nra. }
    rewrite <- Zlt_Qlt in Hlt.
    split; [|lia].
    (* the integer fits 256 bits *)
    unfold payv. unfold pay_of, calc_reward, trim_res, dmul, dsub.
    fold (owed c u d). destruct (Z.ltb_spec 0 (cS c d)) as [Hpos|Hpos]; [|reflexivity].
    pose proof (payv_eq c u d) as He. rewrite (proj2 (Z.ltb_lt _ _) Hpos) in He.
    unfold trim_int in *. destruct (Z.ltb_spec (Z.abs (trim (rnd34 (owed c u d)))) BITS256) as [Hb|Hb]; [reflexivity|].
    exfalso. destruct (pay_bounds _ Hou) as [Ht0 Ht1].
    assert (Hx : inject_Z (trim (rnd34 (owed c u d))) < inject_Z (cS c d + 1)).
    { rewrite inject_Z_plus. change (inject_Z 1) with 1. pose proof eta_pos. nra. }
    rewrite <- Zlt_Qlt in Hx.
    assert (Hk2 : inject_Z (R d) < inject_Z (10 ^ 34)).
    { assert (kappa * inject_Z (10 ^ 34) >= 1) by (vm_compute; discriminate). pose proof kappa_pos. nra. }
    rewrite <- Zlt_Qlt in Hk2.
    assert (10 ^ 34 < BITS256)%Z by reflexivity. lia. }
  unfold claim_cell.
  rewrite (all_ok_intro _ denoms).
  2:{ intros d Hd. destruct (Hpay d Hd) as [-> Hb]. destruct (Z.ltb_spec (payv c u d) 0); [lia|reflexivity]. }
  cbn. rewrite (all_ok_intro _ denoms).
  2:{ intros d Hd. destruct (Hpay d Hd) as [_ Hb]. destruct (Z.ltb_spec (cS c d) (payv c u d)); [lia|reflexivity]. }
  cbn. eexists. reflexivity.
Qed.

(* ---------- accrual ---------- *)
Lemma Qeq_bool_injZ_nz t : t <> 0%Z -> Qeq_bool (inject_Z t) 0 = false.
Proof.
  intros Ht. destruct (Qeq_bool (inject_Z t) 0) eqn:E; [|reflexivity].
  apply Qeq_bool_iff in E. unfold Qeq in E. cbn in E. lia.
Qed.

Definition incr (T : Z) (rw : Z -> Z) (d : Z) : Q := rnd34 (inject_Z (rw d) / inject_Z T).

Lemma accrue_denoms_spec ds : forall c rw, NoDup ds -> cT c <> 0%Z ->
  exists c2, accrue_denoms c rw ds = Ok c2 /\
    cT c2 = cT c /\ csh c2 = csh c /\ cmodsh c2 = cmodsh c /\ cB c2 = cB c /\ csd c2 = csd c /\
    cent c2 = cent c /\ cS c2 = cS c /\ cchk c2 = cchk c /\
    forall d, cM c2 d = if mem d ds && (0 <? rw d)%Z then dadd (cM c d) (incr (cT c) rw d) else cM c d.
Proof.
  induction ds as [|a tl IH]; intros c rw Hnd HT.
  - exists c. cbn. repeat split; reflexivity.
  - inversion Hnd as [|? ? Hna Hnd']; subst. cbn [accrue_denoms].
    destruct (Z.leb_spec (rw a) 0) as [Hle|Hgt].
    + destruct (IH c rw Hnd' HT) as (c2 & H0 & H1 & H2 & H3 & H4 & H5 & H6 & H7 & H8 & H9).
      exists c2. repeat split; try assumption. intros d. rewrite H9. cbn [mem existsb].
      destruct (Z.eqb_spec d a) as [->|Hne]; [|reflexivity].
      assert ((0 <? rw a)%Z = false) as -> by (apply Z.ltb_ge; lia). rewrite !andb_false_r. reflexivity.
    + unfold mult_new, dquo. rewrite (Qeq_bool_injZ_nz _ HT). cbn.
      set (c1 := mkCell _ _ _ _ _ _ _ _ _).
      destruct (IH c1 rw Hnd' HT) as (c2 & H0 & H1 & H2 & H3 & H4 & H5 & H6 & H7 & H8 & H9).
      exists c2. repeat split; try assumption. intros d. rewrite H9. subst c1. cbn [cM cT mem existsb].
      unfold upd. destruct (Z.eqb_spec d a) as [->|Hne].
      * assert (mem a tl = false) as Hm by (apply mem_false; exact Hna).
        assert ((0 <? rw a)%Z = true) as -> by (apply Z.ltb_lt; lia). rewrite ?Hm. cbn. rewrite ?Hm. reflexivity.
      * cbn. reflexivity.
Qed.

Definition inflow (rw : Z -> Z) (d : Z) : Z := if mem d denoms && (0 <? rw d)%Z then rw d else 0%Z.

Lemma accrue_cell_spec c rw : SI c ->
  let c' := accrue_cell denoms c rw in
  cT c' = cT c /\ csh c' = csh c /\ cmodsh c' = cmodsh c /\ cB c' = cB c /\ csd c' = csd c /\
  cent c' = cent c /\ cchk c' = cchk c /\
  (forall d, cS c' d = (cS c d + inflow rw d)%Z) /\
  (forall d, cM c' d = if (cT c =? 0)%Z then cM c d
                       else if mem d denoms && (0 <? rw d)%Z then dadd (cM c d) (incr (cT c) rw d) else cM c d).
Proof.
  intros HS. unfold accrue_cell.
  destruct (forallb (fun d => (rw d <=? 0)%Z) denoms) eqn:Hall.
  - (* nothing positive: nothing happens *)
    assert (Hz : forall d, mem d denoms && (0 <? rw d)%Z = false).
    { intros d. destruct (mem d denoms) eqn:Hm; [|reflexivity]. apply mem_In in Hm.
      rewrite forallb_forall in Hall. specialize (Hall d Hm). cbn. apply Z.ltb_ge. apply Z.leb_le in Hall. exact Hall. }
    cbv zeta. repeat split; try reflexivity.
    + intros d. unfold inflow. rewrite Hz. lia.
    + intros d. rewrite Hz. destruct (cT c =? 0)%Z; reflexivity.
  - set (c1 := mkCell _ _ _ _ _ _ _ _ _).
    assert (HS1 : forall d, cS c1 d = (cS c d + inflow rw d)%Z).
    { intros d. subst c1. cbn [cS]. unfold inflow. destruct (mem d denoms && (0 <? rw d)%Z); lia. }
    destruct (Z.eqb_spec (cT c) 0) as [HT|HT].
    + cbv zeta. repeat split; try reflexivity. exact HS1.
    + destruct (accrue_denoms_spec denoms c1 rw NDd HT) as (c2 & H0 & H1 & H2 & H3 & H4 & H5 & H6 & H7 & H8 & H9).
      rewrite H0. cbv zeta. repeat split; try assumption.
      intros d. rewrite H7. apply HS1.
Qed.

Lemma incr_bounds T rw d : (0 < T)%Z -> (0 < rw d)%Z ->
  0 < incr T rw d /\ incr T rw d * inject_Z T <= (1 + eta) * inject_Z (rw d).
Proof.
  intros HT Hr. unfold incr.
  assert (HTq : 0 < inject_Z T) by (change 0 with (inject_Z 0); rewrite <- Zlt_Qlt; exact HT).
  assert (Hrq : 0 < inject_Z (rw d)) by (change 0 with (inject_Z 0); rewrite <- Zlt_Qlt; exact Hr).
  assert (Hx : 0 < inject_Z (rw d) / inject_Z T) by (apply Qlt_shift_div_l; lra).
  destruct (rnd34_pos_bounds _ Hx) as (H0 & H1 & _). split; [exact H0|].
  assert (He : inject_Z (rw d) / inject_Z T * inject_Z T == inject_Z (rw d)) by (field; lra).
  pose proof eta_pos. nra.
Qed.

Lemma SI_T_nonneg c : SI c -> (0 <= cT c)%Z.
Proof. intros (HT & Hs & _). rewrite HT. apply sumZ_nonneg. intros; apply Hs. Qed.

Lemma SI_T_Q c : SI c -> inject_Z (cT c) == sumQ (fun u => inject_Z (csh c u)) users.
Proof. intros (HT & _). rewrite HT. apply sumZ_inject. Qed.

Lemma inflow_nonneg rw d : (0 <= inflow rw d)%Z.
Proof. unfold inflow. destruct (mem d denoms); cbn; [|lia]. destruct (Z.ltb_spec 0 (rw d)); lia. Qed.

(* how the open entitlement of a user changes at an accrual *)
Lemma accrue_owed c rw u d : SI c ->
  owed (accrue_cell denoms c rw) u d ==
  owed c u d + (if (cT c =? 0)%Z then 0 else if mem d denoms && (0 <? rw d)%Z then incr (cT c) rw d else 0) * inject_Z (csh c u).
Proof.
  intros HS. destruct (accrue_cell_spec c rw HS) as (_ & Hsh & _ & _ & _ & _ & Hchk & _ & HM).
  unfold owed. rewrite Hsh, Hchk, HM.
  destruct (cT c =? 0)%Z; [ring|]. destruct (mem d denoms && (0 <? rw d)%Z); [unfold dadd|]; ring.
Qed.

Lemma accrue_RI c rw d R : SI c -> RI c d R -> RI (accrue_cell denoms c rw) d (R + inflow rw d).
Proof.
  intros HS (Hc & HS0 & HSR & Hsum).
  destruct (accrue_cell_spec c rw HS) as (HT' & Hsh & _ & _ & _ & _ & Hchk & HS' & HM).
  pose proof (inflow_nonneg rw d) as Hin. pose proof (SI_T_nonneg c HS) as HTn.
  assert (Hsum' : sumQ (fun u => owed (accrue_cell denoms c rw) u d) users ==
                  sumQ (fun u => owed c u d) users +
                  (if (cT c =? 0)%Z then 0 else if mem d denoms && (0 <? rw d)%Z then incr (cT c) rw d else 0) * inject_Z (cT c)).
  { rewrite (sumQ_ext _ _ users (fun u _ => accrue_owed c rw u d HS)).
    rewrite sumQ_plus, sumQ_scale, (SI_T_Q c HS). reflexivity. }
  assert (Hk : 1 + kappa == (1 + eta) * (1 + eta)) by (unfold kappa; ring).
  repeat split.
  - intros u. rewrite Hchk, HM. specialize (Hc u).
    destruct (Z.eqb_spec (cT c) 0) as [HT|HT]; [exact Hc|].
    destruct (mem d denoms && (0 <? rw d)%Z) eqn:Hm; [|exact Hc].
    apply andb_prop in Hm. destruct Hm as [_ Hr]. apply Z.ltb_lt in Hr.
    destruct (incr_bounds (cT c) rw d ltac:(lia) Hr) as [Hq _]. unfold dadd. lra.
  - rewrite HS'. lia.
  - rewrite HS'. lia.
  - rewrite Hsum', HS', !inject_Z_plus.
    assert (Hinq : 0 <= inject_Z (inflow rw d)) by (change 0 with (inject_Z 0); rewrite <- Zle_Qle; exact Hin).
    pose proof kappa_pos as Hkp. pose proof eta_pos as Hep.
    destruct (Z.eqb_spec (cT c) 0) as [HT|HT]; [nra|].
    unfold inflow in *. destruct (mem d denoms && (0 <? rw d)%Z) eqn:Hm; [|nra].
    apply andb_prop in Hm. destruct Hm as [_ Hr]. apply Z.ltb_lt in Hr.
    destruct (incr_bounds (cT c) rw d ltac:(lia) Hr) as [Hq Hq2]. nra.
Qed.

(* ---------- entitlement of one user ---------- *)
(* paid so far + what is still open never exceeds the exact pro-rata entitlement by more than the
   two roundings (multiplier increment, claimed product) *)
Definition EI (c : cell) (u d : Z) (paid : Z) (ent : Q) : Prop :=
  inject_Z paid + (1 + eta) * owed c u d <= (1 + eta) * (1 + eta) * ent.

Definition share_of (c : cell) (rw : Z -> Z) (u d : Z) : Q :=
  if (cT c =? 0)%Z then 0 else inject_Z (inflow rw d) * inject_Z (csh c u) / inject_Z (cT c).

Lemma accrue_EI c rw u d p e : SI c -> EI c u d p e ->
  EI (accrue_cell denoms c rw) u d p (e + share_of c rw u d).
Proof.
  intros HS HE. unfold EI in *. rewrite (accrue_owed c rw u d HS). unfold share_of.
  pose proof (SI_T_nonneg c HS) as HTn. destruct HS as (_ & Hs & _).
  destruct (Z.eqb_spec (cT c) 0) as [HT|HT]; [lra|].
  unfold inflow. destruct (mem d denoms && (0 <? rw d)%Z) eqn:Hm.
  2:{ assert (inject_Z 0 * inject_Z (csh c u) / inject_Z (cT c) == 0) as -> by (unfold Qdiv; change (inject_Z 0) with 0; ring). lra. }
  apply andb_prop in Hm. destruct Hm as [_ Hr]. apply Z.ltb_lt in Hr.
  destruct (incr_bounds (cT c) rw d ltac:(lia) Hr) as [Hq Hq2].
  assert (HTq : 0 < inject_Z (cT c)) by (change 0 with (inject_Z 0); rewrite <- Zlt_Qlt; lia).
  assert (Hsq : 0 <= inject_Z (csh c u)) by (change 0 with (inject_Z 0); rewrite <- Zle_Qle; apply Hs).
  set (q := incr (cT c) rw d) in *. set (T := inject_Z (cT c)) in *. set (r := inject_Z (rw d)) in *.
  set (sh := inject_Z (csh c u)) in *.
  assert (Hx : q * sh <= (1 + eta) * (r * sh / T)).
  { set (e1 := r * sh / T). assert (He1 : e1 * T == r * sh) by (unfold e1; field; lra).
    apply (Qmult_le_r _ _ T HTq).
    assert (Hsh : q * T * sh <= (1 + eta) * r * sh) by (apply Qmult_le_compat_r; assumption).
    assert ((1 + eta) * e1 * T == (1 + eta) * (r * sh)) as -> by (rewrite <- He1; ring).
    lra. }
  pose proof eta_pos. nra.
Qed.
End Cell.

(* ================= the whole module ================= *)
Local Open Scope Z_scope.
Section Sys.
Variables (denoms users vals : list Z).
Hypothesis NDd : NoDup denoms.
Hypothesis NDu : NoDup users.
Hypothesis NDv : NoDup vals.

Notation stepF := (step denoms true vals).
Notation execF := (exec denoms true vals).

(* ---------- shapes of successful operations ---------- *)
Lemma claim_inv s u v s' : claim denoms true s u v = Ok s' ->
  exists c', claim_cell denoms (cells s v) u = Ok c' /\
    s' = mkState (upd (cells s) v c') (credit denoms s (cells s v) u) (mbal s) (queue s) (next_id s).
Proof.
  unfold claim, do_claim. destruct (claim_cell denoms (cells s v) u) as [c'| |]; cbn; intros H; try discriminate.
  injection H as <-. exists c'. split; reflexivity.
Qed.

(* the cell after a delegation / undelegation: shares of u and the supply move by delta *)
Definition reshare (c1 : cell) (u delta : Z) (B' : option Z) (sd : bool) : cell :=
  mkCell (cT c1 + delta) (upd (csh c1) u (csh c1 u + delta)) (cmodsh c1) B' sd (cent c1)
         (cS c1) (cM c1) (cchk c1).

Lemma delegate_inv s o u v amt dn s' : delegate denoms true s o u v amt dn = Ok s' ->
  exists c1 share, claim_cell denoms (cells s v) u = Ok c1 /\ k_calc_share c1 amt = Ok share /\
    (0 <= share)%Z /\ (0 < amt)%Z /\ (0 <= v)%Z /\ dn = FEE /\
    let B' := match cB c1 with Some b => (b + amt)%Z | None => amt end in
    s' = mkState (upd (cells s) v (reshare c1 u share (Some B') true))
                 (upd2 (credit denoms s (cells s v) u) u FEE (credit denoms s (cells s v) u u FEE - amt)%Z)
                 (add_leak denoms s o) (queue s) (next_id s).
Proof.
  unfold delegate, do_claim.
  destruct (Z.ltb_spec amt 0); [discriminate|].
  destruct (Z.eqb_spec dn FEE) as [Hd|Hd]; cbn; [|discriminate].
  destruct (claim_cell denoms (cells s v) u) as [c1| |] eqn:Hcl; cbn; try discriminate.
  destruct (k_calc_share c1 amt) as [share| |] eqn:Hks; cbn; try discriminate.
  destruct (Z.ltb_spec (credit denoms s (cells s v) u u FEE) amt); try discriminate.
  destruct (Z.ltb_spec v 0); cbn; try discriminate.
  destruct (Z.leb_spec amt 0); cbn; try discriminate.
  destruct (Z.ltb_spec share 0); try discriminate.
  intros Hok. injection Hok as <-. exists c1, share. repeat split; try lia; try assumption; try reflexivity.
Qed.

Lemma undelegate_inv s o u v amt dn rcp s' : undelegate denoms true s o u v amt dn rcp = Ok s' ->
  exists c1 cost b, claim_cell denoms (cells s v) u = Ok c1 /\ k_calc_share c1 amt = Ok cost /\
    (0 <= cost <= csh c1 u)%Z /\ (0 < amt <= b)%Z /\ cB c1 = Some b /\ (cent c1 < o_max o)%Z /\
    (0 <= v)%Z /\ (0 <= rcp)%Z /\ dn = FEE /\ (0 <= o_ret o <= amt)%Z /\
    s' = mkState (upd (cells s) v (reshare c1 u (- cost) (if (b - o_ret o =? 0)%Z then None else Some (b - o_ret o)%Z) (csd c1)))
                 (credit denoms s (cells s v) u) (add_leak denoms s o)
                 (q_insert (mkUnb (next_id s) rcp (o_ct o) (o_ret o)) (queue s)) (next_id s + 1).
Proof.
  unfold undelegate, do_claim.
  destruct (Z.eqb_spec dn FEE) as [Hd|Hd]; cbn; [|discriminate].
  destruct (Z.leb_spec amt 0); try discriminate.
  destruct (claim_cell denoms (cells s v) u) as [c1| |] eqn:Hcl; cbn; try discriminate.
  destruct (k_calc_share c1 amt) as [cost| |] eqn:Hks; cbn; try discriminate.
  destruct (Z.ltb_spec cost 0); try discriminate.
  destruct (Z.ltb_spec (csh c1 u) cost); try discriminate.
  destruct (Z.ltb_spec v 0); try discriminate.
  destruct (cB c1) as [b|] eqn:HB; try discriminate.
  destruct (Z.ltb_spec b amt); try discriminate.
  destruct (Z.leb_spec (o_max o) (cent c1)); try discriminate.
  destruct (Z.ltb_spec rcp 0); try discriminate.
  destruct (Z.ltb_spec (o_ret o) 0); cbn [orb]; try discriminate.
  destruct (Z.ltb_spec amt (o_ret o)); try discriminate.
  intros Hok. injection Hok as <-. exists c1, cost, b. repeat split; try lia; try assumption; try reflexivity.
Qed.

Definition is_some {A} (x : option A) : bool := match x with Some _ => true | None => false end.

Lemma mem_cons v a tl : mem v (a :: tl) = (v =? a) || mem v tl.
Proof. reflexivity. Qed.

Lemma accrue_all_spec o : forall vs cs, NoDup vs ->
  forall v, accrue_all denoms cs o vs v =
            if mem v vs && is_some (cB (cs v)) then accrue_cell denoms (cs v) (o_rw o v) else cs v.
Proof.
  induction vs as [|a tl IH]; intros cs Hnd v; [reflexivity|].
  inversion Hnd as [|? ? Hna Hnd']; subst. cbn [accrue_all]. rewrite (IH _ Hnd' v), mem_cons.
  destruct (Z.eqb_spec v a) as [->|Hne].
  - assert (mem a tl = false) as Hm by (apply mem_false; exact Hna). rewrite Hm. cbn [andb orb].
    destruct (cB (cs a)) eqn:HB; cbn [is_some]; [|reflexivity]. unfold upd. rewrite Z.eqb_refl. reflexivity.
  - cbn [orb]. assert (Hv : (match cB (cs a) with None => cs | Some _ => upd cs a (accrue_cell denoms (cs a) (o_rw o a)) end) v = cs v).
    { destruct (cB (cs a)); [|reflexivity]. unfold upd. destruct (Z.eqb_spec v a); [contradiction|reflexivity]. }
    rewrite Hv. reflexivity.
Qed.

(* ---------- the unbonding queue ---------- *)
(* which entries an end-block at time now pays, and which it keeps *)
Fixpoint gc_split (now : Z) (q : list unb) : list unb * list unb :=
  match q with
  | [] => ([], [])
  | e :: tl =>
      if unix now <? unix (u_time e) then ([], q)
      else let '(p, k) := gc_split now tl in
           if now <? u_time e then (p, e :: k) else (e :: p, k)
  end.

Definition amt_for (r : Z) (e : unb) : Z := if u_rcp e =? r then u_amt e else 0.
Definition pending (q : list unb) (r : Z) : Z := fold_right (fun e acc => amt_for r e + acc) 0 q.
Definition total (q : list unb) : Z := fold_right (fun e acc => u_amt e + acc) 0 q.

Lemma pending_cons e q r : pending (e :: q) r = amt_for r e + pending q r.
Proof. reflexivity. Qed.
Lemma total_cons e q : total (e :: q) = u_amt e + total q.
Proof. reflexivity. Qed.

Lemma gc_spec now : forall q ub mb q' ub' mb',
  gc true now q ub mb = Ok (q', ub', mb') ->
  q' = snd (gc_split now q) /\
  (forall r d, ub' r d = ub r d + (if d =? FEE then pending (fst (gc_split now q)) r else 0)) /\
  (forall d, mb' d = mb d - (if d =? BOND then total (fst (gc_split now q)) else 0)).
Proof.
  induction q as [|e tl IH]; intros ub mb q' ub' mb' H.
  - cbn in H. injection H as <- <- <-. cbn. repeat split; intros; destruct (_ =? _); lia.
  - cbn [gc gc_split] in *. destruct (unix now <? unix (u_time e)).
    + injection H as <- <- <-. cbn. repeat split; intros; destruct (_ =? _); lia.
    + cbn [andb] in H. destruct (now <? u_time e) eqn:Hlt.
      * destruct (gc true now tl ub mb) as [[[q1 ub1] mb1]| |] eqn:Hg; cbn in H; try discriminate.
        injection H as <- <- <-. destruct (IH _ _ _ _ _ Hg) as (Hq & Hub & Hmb).
        destruct (gc_split now tl) as [p k]. cbn in *. subst q1. repeat split; assumption.
      * destruct (mb BOND <? u_amt e) eqn:Hins; [discriminate|].
        destruct (IH _ _ _ _ _ H) as (Hq & Hub & Hmb).
        destruct (gc_split now tl) as [p k]. cbn [fst snd] in *. split; [exact Hq|]. split.
        -- intros r d. rewrite Hub. unfold upd2. rewrite pending_cons. unfold amt_for at 1.
           destruct (Z.eqb_spec r (u_rcp e)) as [->|Hr]; destruct (Z.eqb_spec d FEE) as [->|Hd]; cbn [andb].
           ++ rewrite Z.eqb_refl. lia.
           ++ lia.
           ++ destruct (Z.eqb_spec (u_rcp e) r); [congruence|]. lia.
           ++ lia.
        -- intros d. rewrite Hmb. unfold upd. rewrite total_cons.
           destruct (Z.eqb_spec d BOND) as [->|Hd]; lia.
Qed.

(* what is paid was complete, what is kept was either not complete or behind an entry of a later second *)
Lemma gc_split_paid_mature now q e : In e (fst (gc_split now q)) -> u_time e <= now.
Proof.
  induction q as [|a tl IH]; cbn; [tauto|].
  destruct (unix now <? unix (u_time a)); cbn; [tauto|].
  destruct (gc_split now tl) as [p k]. destruct (Z.ltb_spec now (u_time a)); cbn in *; [exact IH|].
  intros [<-|Hin]; [lia| apply IH; exact Hin].
Qed.
Lemma gc_split_pending now q r :
  pending q r = pending (fst (gc_split now q)) r + pending (snd (gc_split now q)) r.
Proof.
  induction q as [|a tl IH]; cbn [gc_split]; [reflexivity|].
  destruct (unix now <? unix (u_time a)); [cbn [fst snd]; change (pending [] r) with 0; lia|].
  rewrite pending_cons. destruct (gc_split now tl) as [p k]. cbn [fst snd] in IH.
  destruct (now <? u_time a); cbn [fst snd] in *; rewrite ?pending_cons; lia.
Qed.

(* the queue is sorted by the second of completion *)
Fixpoint sorted (q : list unb) : Prop :=
  match q with
  | [] => True
  | e :: tl => (forall x, In x tl -> unix (u_time e) <= unix (u_time x)) /\ sorted tl
  end.
Lemma unix_mono a b : a <= b -> unix a <= unix b.
Proof. intros. unfold unix, SEC. apply Z.div_le_mono; lia. Qed.
Lemma gc_split_kept_immature now q e : sorted q -> In e (snd (gc_split now q)) -> now < u_time e.
Proof.
  induction q as [|a tl IH]; cbn [gc_split sorted]; [cbn; tauto|]. intros [Ha Hs].
  destruct (Z.ltb_spec (unix now) (unix (u_time a))) as [Hl|Hl].
  - cbn [snd]. intros Hin.
    assert (Hu : unix (u_time a) <= unix (u_time e)).
    { destruct Hin as [->|Hin]; [lia| apply Ha; exact Hin]. }
    destruct (Z.lt_ge_cases now (u_time e)); [assumption|].
    pose proof (unix_mono (u_time e) now ltac:(lia)). lia.
  - destruct (gc_split now tl) as [p k]. destruct (Z.ltb_spec now (u_time a)); cbn [snd] in *.
    + intros [->|Hin]; [assumption| apply IH; assumption].
    + apply IH; assumption.
Qed.
Lemma gc_split_partition now q e : In e q <-> In e (fst (gc_split now q)) \/ In e (snd (gc_split now q)).
Proof.
  induction q as [|a tl IH]; cbn [gc_split]; [cbn; tauto|].
  destruct (unix now <? unix (u_time a)); [cbn; tauto|].
  destruct (gc_split now tl) as [p k]. destruct (now <? u_time a); cbn in *; tauto.
Qed.

Lemma q_insert_pending e q r : pending (q_insert e q) r = amt_for r e + pending q r.
Proof.
  induction q as [|a tl IH]; cbn [q_insert]; [reflexivity|].
  destruct (unix (u_time e) <? unix (u_time a)); [reflexivity|].
  rewrite !pending_cons, IH. lia.
Qed.
Lemma q_insert_In e q x : In x (q_insert e q) <-> x = e \/ In x q.
Proof.
  induction q as [|a tl IH]; cbn [q_insert]; [cbn; intuition|].
  destruct (unix (u_time e) <? unix (u_time a)); cbn in *; [intuition|]. rewrite IH. intuition.
Qed.
Lemma q_insert_sorted e q : sorted q -> sorted (q_insert e q).
Proof.
  induction q as [|a tl IH]; cbn [q_insert sorted]; [cbn; tauto|]. intros [Ha Hs].
  destruct (Z.ltb_spec (unix (u_time e)) (unix (u_time a))) as [Hl|Hl].
  - cbn [sorted]. split; [|split; assumption]. intros x [<-|Hx]; [lia| specialize (Ha x Hx); lia].
  - cbn [sorted]. split; [|apply IH; exact Hs]. intros x Hx. apply q_insert_In in Hx. destruct Hx as [->|Hx]; [lia|apply Ha; exact Hx].
Qed.

(* ---------- everything the model keeps for one validator, with its ghosts ---------- *)
Notation owedU := (owed).
Definition CellOK (c : cell) (recv : Z -> Z) (paid : Z -> Z -> Z) (ent : Z -> Z -> Q) : Prop :=
  SI users c /\ (0 < cT c -> csd c = true) /\
  (forall d, RI users c d (recv d)) /\
  (forall u d, EI c u d (paid u d) (ent u d)) /\
  (forall d, sumZ (fun u => paid u d) users + cS c d = recv d).

Lemma CellOK_claim c recv paid ent u c' : CellOK c recv paid ent -> In u users ->
  claim_cell denoms c u = Ok c' ->
  CellOK c' recv (fun u' d => if u' =? u then paid u' d + (cS c d - cS c' d) else paid u' d) ent.
Proof.
  intros (HS & Hsd & HR & HE & HC) Hu Hcl.
  destruct (claim_cell_inv denoms c u c' Hcl) as [Hpay Hc'].
  assert (HS' : forall d, cS c' d = if mem d denoms then cS c d - payv c u d else cS c d) by (intros; rewrite Hc'; reflexivity).
  assert (HT : cT c' = cT c) by (rewrite Hc'; reflexivity).
  assert (Hsd' : csd c' = csd c) by (rewrite Hc'; reflexivity).
  split; [exact (claim_SI denoms users c u c' HS Hcl)|].
  split; [rewrite HT, Hsd'; exact Hsd|].
  split; [intros d; exact (claim_RI denoms users NDu c u c' d (recv d) HS (HR d) Hu Hcl)|].
  split.
  - intros u' d. destruct (owed_after_claim denoms c u c' d Hcl) as [Hz Hoth]. unfold EI.
    destruct (Z.eqb_spec u' u) as [->|Hne].
    + rewrite (Qnum_zero_eq _ Hz). specialize (HE u d). unfold EI in HE.
      destruct (HR d) as (Hc & _). pose proof (owed_nonneg users c u d HS Hc) as Hou.
      destruct (payv_bounds c u d Hou) as [Hp0 Hp1].
      rewrite HS'. destruct (mem d denoms).
      * replace (cS c d - (cS c d - payv c u d)) with (payv c u d) by lia. rewrite inject_Z_plus. lra.
      * replace (cS c d - cS c d) with 0 by lia. rewrite Z.add_0_r. pose proof eta_pos. nra.
    + rewrite (Hoth u' Hne). apply HE.
  - intros d. rewrite <- (HC d).
    rewrite (sumZ_upd (fun u0 => paid u0 d) (fun u0 => if u0 =? u then paid u0 d + (cS c d - cS c' d) else paid u0 d) users u NDu Hu).
    + rewrite Z.eqb_refl. lia.
    + intros u' Hne. destruct (Z.eqb_spec u' u); [contradiction|reflexivity].
Qed.

Lemma after_claim_chk c u c' : claim_cell denoms c u = Ok c' -> forall d, cchk c' u d = cM c' d.
Proof. intros Hcl d. destruct (claim_cell_inv denoms c u c' Hcl) as [_ ->]. cbn. rewrite Z.eqb_refl. reflexivity. Qed.

Lemma CellOK_reshare c1 recv paid ent u delta B' sd : CellOK c1 recv paid ent ->
  (forall d, cchk c1 u d = cM c1 d) -> In u users -> 0 <= csh c1 u + delta ->
  (0 < cT c1 + delta -> sd = true) ->
  CellOK (reshare c1 u delta B' sd) recv paid ent.
Proof.
  intros (HS & Hsd & HR & HE & HC) Hchk Hu Hnn Hsd2.
  assert (Howed : forall u' d, (owed (reshare c1 u delta B' sd) u' d == owed c1 u' d)%Q).
  { intros u' d. unfold owed, reshare. cbn [cM cchk csh]. unfold upd.
    destruct (Z.eqb_spec u' u) as [->|Hne]; [|reflexivity].
    rewrite Hchk. rewrite (Qnum_zero_eq _ (diff_self_num _ _)), (Qnum_zero_eq _ (diff_self_num _ _)). reflexivity. }
  destruct HS as (HT & Hs & Hnot & Hmod).
  split.
  { unfold SI, reshare. cbn [cT csh cmodsh]. repeat split.
    - rewrite (sumZ_upd (csh c1) (upd (csh c1) u (csh c1 u + delta)) users u NDu Hu).
      + unfold upd. rewrite Z.eqb_refl. lia.
      + intros u' Hne. unfold upd. destruct (Z.eqb_spec u' u); [contradiction|reflexivity].
    - intros u'. unfold upd. destruct (Z.eqb_spec u' u); [lia|apply Hs].
    - intros u' Hn. unfold upd. destruct (Z.eqb_spec u' u) as [->|]; [contradiction|apply Hnot; exact Hn].
    - exact Hmod. }
  split; [exact Hsd2|].
  split.
  { intros d. destruct (HR d) as (H1 & H2 & H3 & H4). repeat split; try assumption.
    rewrite (sumQ_ext _ (fun u0 => owed c1 u0 d) users (fun u0 _ => Howed u0 d)). exact H4. }
  split; [|exact HC].
  intros u' d. unfold EI. rewrite (Howed u' d). apply HE.
Qed.

Lemma CellOK_accrue c recv paid ent rw : CellOK c recv paid ent ->
  let c' := accrue_cell denoms c rw in
  CellOK c' (fun d => recv d + (cS c' d - cS c d)) paid
         (fun u d => (ent u d + (if cT c =? 0 then 0 else inject_Z (cS c' d - cS c d) * inject_Z (csh c u) / inject_Z (cT c)))%Q).
Proof.
  intros (HS & Hsd & HR & HE & HC). cbv zeta.
  destruct (accrue_cell_spec denoms users NDd c rw HS) as (HT' & Hsh & Hmod & _ & Hsd' & _ & Hchk & HS' & HM).
  assert (Hin : forall d, cS (accrue_cell denoms c rw) d - cS c d = inflow denoms rw d) by (intros; rewrite HS'; lia).
  split.
  { destruct HS as (H1 & H2 & H3 & H4). unfold SI. rewrite HT', Hsh, Hmod. repeat split; assumption. }
  split; [rewrite HT', Hsd'; exact Hsd|].
  split; [intros d; rewrite Hin; apply (accrue_RI denoms users NDd c rw d (recv d) HS (HR d))|].
  split.
  - intros u d. rewrite Hin. apply (accrue_EI denoms users NDd c rw u d _ _ HS (HE u d)).
  - intros d. rewrite Hin, HS'. rewrite <- (HC d). lia.
Qed.

(* ---------- histories with ghost totals ---------- *)
Record ghost := mkG {
  g_recv : Z -> Z -> Z;         (* validator, denom: received by the reward saver *)
  g_paid : Z -> Z -> Z -> Z;    (* user, validator, denom: rewards paid to the user *)
  g_ent : Z -> Z -> Z -> Q;     (* user, validator, denom: sum over the accruals of
                                   reward x shares held / share supply *)
  g_und : Z -> Z;               (* recipient: principal staking unbonded in its favour *)
  g_out : Z -> Z                (* recipient: principal paid out by end-blocks *)
}.
Definition ghost0 : ghost :=
  mkG (fun _ _ => 0) (fun _ _ _ => 0) (fun _ _ _ => 0%Q) (fun _ => 0) (fun _ => 0).

Definition paid_upd (g : ghost) (s s' : state) (u v : Z) : Z -> Z -> Z -> Z :=
  fun u' v' d => if (v' =? v) && (u' =? u)
                 then g_paid g u' v' d + (cS (cells s v) d - cS (cells s' v) d) else g_paid g u' v' d.

Definition gupd (s : state) (p : op) (o : oracle) (s' : state) (g : ghost) : ghost :=
  match p with
  | OClaim u v => mkG (g_recv g) (paid_upd g s s' u v) (g_ent g) (g_und g) (g_out g)
  | ODelegate u v _ _ => mkG (g_recv g) (paid_upd g s s' u v) (g_ent g) (g_und g) (g_out g)
  | OUndelegate u v amt _ rcp =>
      mkG (g_recv g) (paid_upd g s s' u v) (g_ent g) (upd (g_und g) rcp (g_und g rcp + o_ret o)) (g_out g)
  | OSend _ _ _ _ => g
  | OEndBlock _ =>
      mkG (fun v d => g_recv g v d + (cS (cells s' v) d - cS (cells s v) d)) (g_paid g)
          (fun u v d => (g_ent g u v d +
             (if cT (cells s v) =? 0 then 0
              else inject_Z (cS (cells s' v) d - cS (cells s v) d) * inject_Z (csh (cells s v) u)
                   / inject_Z (cT (cells s v))))%Q)
          (g_und g) (fun r => g_out g r + (ubal s' r FEE - ubal s r FEE))
  end.

Definition gexec1 (sg : state * ghost) (oo : op * oracle) : state * ghost :=
  match stepF (fst sg) oo with
  | Ok s' => (s', gupd (fst sg) (fst oo) (snd oo) s' (snd sg))
  | _ => sg
  end.
Definition gexec (sg : state * ghost) (tr : list (op * oracle)) : state * ghost := fold_left gexec1 tr sg.

Lemma gexec1_fst sg x : fst (gexec1 sg x) = exec1 denoms true vals (fst sg) x.
Proof. unfold gexec1, exec1. destruct (stepF (fst sg) x); reflexivity. Qed.
Lemma gexec_fst tr : forall sg, fst (gexec sg tr) = execF (fst sg) tr.
Proof.
  induction tr as [|x tl IH]; intros sg; [reflexivity|].
  change (gexec sg (x :: tl)) with (gexec (gexec1 sg x) tl). rewrite IH, gexec1_fst. reflexivity.
Qed.
Lemma gexec_app sg tr x : gexec sg (tr ++ [x]) = gexec1 (gexec sg tr) x.
Proof. unfold gexec. rewrite fold_left_app. reflexivity. Qed.

Definition wf_op (p : op) : Prop :=
  match p with
  | OClaim u _ => In u users
  | ODelegate u _ _ _ => In u users
  | OUndelegate u _ _ _ _ => In u users
  | OSend u u' _ _ => In u users /\ In u' users
  | OEndBlock _ => True
  end.
Definition wf_trace (tr : list (op * oracle)) : Prop := Forall (fun oo => wf_op (fst oo)) tr.

(* the invariant *)
Definition GI (sg : state * ghost) : Prop :=
  let s := fst sg in let g := snd sg in
  (forall v, CellOK (cells s v) (g_recv g v) (fun u d => g_paid g u v d) (fun u d => g_ent g u v d)) /\
  sorted (queue s) /\
  (forall r, g_und g r = g_out g r + pending (queue s) r).

(* transfers of a share denom never succeed in a state satisfying the invariant *)
Lemma send_never s g u u' v amt : GI (s, g) -> forall s', send_share s u u' v amt <> Ok s'.
Proof.
  intros (HC & _) s' H. destruct (HC v) as ((HT & Hs & _) & Hsd & _). cbn [fst] in *.
  unfold send_share in H. destruct (csd (cells s v)) eqn:Hd; [discriminate|].
  destruct (Z.leb_spec amt 0); [discriminate|].
  destruct (Z.ltb_spec (csh (cells s v) u) amt); [discriminate|].
  assert (0 < cT (cells s v)).
  { rewrite HT. destruct (in_dec Z.eq_dec u users) as [Hi|Hn].
    - pose proof (sumZ_member_le (csh (cells s v)) users u (fun u' _ => Hs u') Hi). lia.
    - destruct (HC v) as ((_ & _ & Hnot & _) & _). rewrite (Hnot u Hn) in *. lia. }
  discriminate (Hsd H2).
Qed.

Lemma upd_same {A} (f : Z -> A) k v : upd f k v k = v.
Proof. unfold upd. rewrite Z.eqb_refl. reflexivity. Qed.
Lemma upd_other {A} (f : Z -> A) k v k' : k' <> k -> upd f k v k' = f k'.
Proof. intros H. unfold upd. destruct (Z.eqb_spec k' k); [contradiction|reflexivity]. Qed.

Lemma CellOK_ext c recv paid paid' ent : (forall u d, paid' u d = paid u d) ->
  CellOK c recv paid ent -> CellOK c recv paid' ent.
Proof.
  intros He (H1 & H2 & H3 & H4 & H5). split; [exact H1|]. split; [exact H2|]. split; [exact H3|]. split.
  - intros u d. rewrite He. apply H4.
  - intros d. rewrite <- (H5 d). f_equal. apply sumZ_same. intros; apply He.
Qed.

Lemma CellOK_idle c recv paid ent : CellOK c recv paid ent ->
  CellOK c (fun d => recv d + (cS c d - cS c d)) paid
         (fun u d => (ent u d + (if cT c =? 0 then 0 else inject_Z (cS c d - cS c d) * inject_Z (csh c u) / inject_Z (cT c)))%Q).
Proof.
  intros (H1 & H2 & H3 & H4 & H5).
  assert (Hz : forall d, cS c d - cS c d = 0) by (intros; lia).
  split; [exact H1|]. split; [exact H2|]. split; [|split].
  - intros d. rewrite Hz, Z.add_0_r. apply H3.
  - intros u d. rewrite Hz. unfold EI in *.
    assert ((if cT c =? 0 then 0 else inject_Z 0 * inject_Z (csh c u) / inject_Z (cT c)) == 0)%Q as ->.
    { destruct (cT c =? 0); [reflexivity|]. unfold Qdiv. change (inject_Z 0) with 0%Q. ring. }
    rewrite Qplus_0_r. apply H4.
  - intros d. rewrite Hz, Z.add_0_r. apply H5.
Qed.

Lemma GI_step sg p o s' : GI sg -> wf_op p -> stepF (fst sg) (p, o) = Ok s' ->
  GI (s', gupd (fst sg) p o s' (snd sg)).
Proof.
  destruct sg as [s g]. intros HG Hwf Hst. pose proof HG as (HC & Hq & Hu). cbn [fst snd] in *.
  destruct p as [u v|u v amt dn|u v amt dn rcp|u u' v amt|now]; cbn [step] in Hst.
  - (* claim *)
    destruct (claim_inv s u v s' Hst) as (c' & Hcl & ->).
    split; [|split; [exact Hq|exact Hu]]. cbn [fst snd cells gupd g_recv g_paid g_ent].
    intros v'. destruct (Z.eq_dec v' v) as [->|Hne].
    + rewrite upd_same. unfold paid_upd. cbn [cells]. rewrite upd_same.
      eapply CellOK_ext; [|exact (CellOK_claim _ _ _ _ u c' (HC v) Hwf Hcl)].
      intros u0 d. cbn. rewrite Z.eqb_refl. reflexivity.
    + rewrite upd_other by exact Hne. eapply CellOK_ext; [|exact (HC v')].
      intros u0 d. unfold paid_upd. destruct (Z.eqb_spec v' v); [contradiction|reflexivity].
  - (* delegate *)
    destruct (delegate_inv s o u v amt dn s' Hst) as (c1 & share & Hcl & Hks & Hsh & Ha & Hv & Hd & ->).
    split; [|split; [exact Hq|exact Hu]]. cbn [fst snd cells gupd g_recv g_paid g_ent].
    intros v'. destruct (Z.eq_dec v' v) as [->|Hne].
    + rewrite upd_same. unfold paid_upd. cbn [cells]. rewrite upd_same.
      pose proof (CellOK_claim _ _ _ _ u c1 (HC v) Hwf Hcl) as H1.
      eapply CellOK_ext; [|apply (CellOK_reshare c1 _ _ _ u share _ true H1 (after_claim_chk _ _ _ Hcl) Hwf)].
      * intros u0 d. cbn. rewrite Z.eqb_refl. reflexivity.
      * destruct H1 as ((_ & Hs & _) & _). specialize (Hs u). lia.
      * reflexivity.
    + rewrite upd_other by exact Hne. eapply CellOK_ext; [|exact (HC v')].
      intros u0 d. unfold paid_upd. destruct (Z.eqb_spec v' v); [contradiction|reflexivity].
  - (* undelegate *)
    destruct (undelegate_inv s o u v amt dn rcp s' Hst) as (c1 & cost & b & Hcl & Hks & Hco & Ha & HB & He & Hv & Hr & Hd & Hret & ->).
    split; [|split].
    + cbn [fst snd cells gupd g_recv g_paid g_ent].
      intros v'. destruct (Z.eq_dec v' v) as [->|Hne].
      * rewrite upd_same. unfold paid_upd. cbn [cells]. rewrite upd_same.
        pose proof (CellOK_claim _ _ _ _ u c1 (HC v) Hwf Hcl) as H1.
        eapply CellOK_ext; [|apply (CellOK_reshare c1 _ _ _ u (- cost) _ (csd c1) H1 (after_claim_chk _ _ _ Hcl) Hwf)].
        -- intros u0 d. cbn. rewrite Z.eqb_refl. reflexivity.
        -- lia.
        -- destruct H1 as (_ & Hsd & _). intros Hp. apply Hsd. lia.
      * rewrite upd_other by exact Hne. eapply CellOK_ext; [|exact (HC v')].
        intros u0 d. unfold paid_upd. destruct (Z.eqb_spec v' v); [contradiction|reflexivity].
    + cbn [fst queue]. apply q_insert_sorted. exact Hq.
    + intros r. cbn [fst snd queue gupd g_und g_out]. rewrite q_insert_pending. unfold amt_for, upd. cbn [u_rcp u_amt].
      rewrite (Z.eqb_sym rcp r). destruct (Z.eqb_spec r rcp) as [->|Hne]; rewrite Hu; lia.
  - (* send: never succeeds *)
    exfalso. exact (send_never s g u u' v amt HG s' Hst).
  - (* end of block *)
    unfold end_block in Hst.
    destruct (gc true now (queue s) (ubal s) (upd (mbal s) BOND (mbal s BOND + o_released o))) as [[[q' ub'] mb']| |] eqn:Hgc; try discriminate.
    injection Hst as <-.
    destruct (gc_spec now _ _ _ _ _ _ Hgc) as (Hq' & Hub & Hmb).
    split; [|split].
    + cbn [fst snd cells gupd g_recv g_paid g_ent]. intros v.
      rewrite (accrue_all_spec o vals (cells s) NDv v).
      destruct (mem v vals && is_some (cB (cells s v))).
      * apply (CellOK_accrue _ _ _ _ (o_rw o v) (HC v)).
      * apply CellOK_idle. exact (HC v).
    + cbn [fst queue]. rewrite Hq'.
      (* a sublist of a sorted list, in order, is sorted *)
      clear - Hq. induction (queue s) as [|e tl IH]; [exact I|]. cbn [gc_split sorted] in *. destruct Hq as [Ha Hs].
      destruct (unix now <? unix (u_time e)); [cbn; split; assumption|].
      specialize (IH Hs). destruct (gc_split now tl) as [pp kk] eqn:Hsp. destruct (now <? u_time e); cbn [snd] in *; [|exact IH].
      cbn [sorted]. split; [|exact IH]. intros x Hx. apply Ha.
      apply (gc_split_partition now tl x). rewrite Hsp. right. exact Hx.
    + intros r. cbn [fst snd queue gupd g_und g_out ubal]. rewrite Hq', Hub, Z.eqb_refl, Hu.
      rewrite (gc_split_pending now (queue s) r). lia.
Qed.

(* ---------- the invariant holds along every history ---------- *)
Definition init (ub : Z -> Z -> Z) : state := mkState (fun _ => cell0) ub (fun _ => 0) [] 0.

Lemma sumZ_zero l : sumZ (fun _ => 0) l = 0.
Proof. induction l; cbn; lia. Qed.
Lemma sumQ_zero (f : Z -> Q) l : (forall u, f u == 0)%Q -> (sumQ f l == 0)%Q.
Proof. intros H. induction l as [|a tl IH]; cbn; [reflexivity| rewrite H, IH; reflexivity]. Qed.

Lemma GI_init ub : GI (init ub, ghost0).
Proof.
  split; [|split; [exact I| intros r; reflexivity]]. intros v. cbn [fst snd init cells ghost0 g_recv g_paid g_ent].
  split; [|split; [|split; [|split]]].
  - unfold SI, cell0. cbn. rewrite sumZ_zero. repeat split; intros; reflexivity || lia.
  - cbn. lia.
  - intros d. unfold RI. split; [intros u; apply Qle_refl|]. split; [cbn; lia|]. split; [cbn; lia|].
    rewrite (sumQ_zero (fun u => owed cell0 u d) users); [vm_compute; discriminate|].
    intros u. unfold owed, cell0. cbn. reflexivity.
  - intros u d. unfold EI, owed, cell0. cbn. vm_compute. discriminate.
  - intros d. cbn. rewrite sumZ_zero. reflexivity.
Qed.

Lemma GI_gexec1 sg oo : GI sg -> wf_op (fst oo) -> GI (gexec1 sg oo).
Proof.
  intros HG Hwf. unfold gexec1. destruct oo as [p o].
  destruct (stepF (fst sg) (p, o)) as [s'| |] eqn:Hst; [|exact HG|exact HG].
  exact (GI_step sg p o s' HG Hwf Hst).
Qed.
Lemma GI_gexec tr : forall sg, GI sg -> wf_trace tr -> GI (gexec sg tr).
Proof.
  induction tr as [|x tl IH]; intros sg HG Hwf; [exact HG|].
  inversion Hwf as [|? ? Hx Htl]; subst.
  change (gexec sg (x :: tl)) with (gexec (gexec1 sg x) tl). apply IH; [|exact Htl].
  apply GI_gexec1; assumption.
Qed.

(* ---------- consequences ---------- *)
Lemma kappa_slack_int (a b : Z) (x r : Q) :
  (inject_Z a <= inject_Z b + x)%Q -> (x < 1)%Q -> a <= b.
Proof.
  intros H1 H2. assert (H : (inject_Z a < inject_Z (b + 1))%Q) by (rewrite inject_Z_plus; change (inject_Z 1) with 1%Q; lra).
  rewrite <- Zlt_Qlt in H. lia.
Qed.

(* the reward saver covers what all delegators could claim now *)
Lemma solvent_of_GI sg v d : GI sg -> (kappa * inject_Z (g_recv (snd sg) v d) < 1)%Q ->
  sumZ (fun u => payv (cells (fst sg) v) u d) users <= cS (cells (fst sg) v) d.
Proof.
  intros (HC & _) Hk. destruct (HC v) as (HS & _ & HR & _). destruct (HR d) as (Hc & HS0 & HSR & Hsum).
  set (c := cells (fst sg) v) in *.
  assert (Hle : (inject_Z (sumZ (fun u => payv c u d) users) <= (1 + eta) * sumQ (fun u => owed c u d) users)%Q).
  { rewrite sumZ_inject, <- sumQ_scale. apply sumQ_le. intros u _.
    apply (payv_bounds c u d). apply (owed_nonneg users c u d HS Hc). }
  eapply (kappa_slack_int _ _ (kappa * inject_Z (g_recv (snd sg) v d))%Q 0%Q); [|exact Hk]. lra.
Qed.

Lemma paid_le_received_of_GI sg v d : GI sg ->
  sumZ (fun u => g_paid (snd sg) u v d) users <= g_recv (snd sg) v d.
Proof.
  intros (HC & _). destruct (HC v) as (_ & _ & HR & _ & HCI). destruct (HR d) as (_ & HS0 & _).
  specialize (HCI d). lia.
Qed.

Lemma paid_le_entitlement_of_GI sg u v d : GI sg ->
  (inject_Z (g_paid (snd sg) u v d) <= (1 + eta) * (1 + eta) * g_ent (snd sg) u v d)%Q.
Proof.
  intros (HC & _). destruct (HC v) as (HS & _ & HR & HE & _). destruct (HR d) as (Hc & _).
  specialize (HE u d). unfold EI in HE. pose proof (owed_nonneg users _ u d HS Hc). pose proof eta_pos. nra.
Qed.

Lemma claim_available_of_GI sg u v : GI sg -> In u users ->
  (forall d, In d denoms -> (kappa * inject_Z (g_recv (snd sg) v d) < 1)%Q) ->
  exists s', claim denoms true (fst sg) u v = Ok s'.
Proof.
  intros (HC & _) Hu Hk. destruct (HC v) as (HS & _ & HR & _).
  destruct (claim_cell_succeeds denoms users (cells (fst sg) v) u (g_recv (snd sg) v) HS Hu) as [c' Hc'].
  { intros d Hd. split; [apply HR|apply Hk; exact Hd]. }
  unfold claim, do_claim. rewrite Hc'. cbn. eexists. reflexivity.
Qed.

(* a second claim without an end-block in between pays nothing *)
Definition no_endblock (tr : list (op * oracle)) : Prop :=
  Forall (fun oo => match fst oo with OEndBlock _ => False | _ => True end) tr.
Definition caught_up (s : state) (u v : Z) : Prop := forall d, cchk (cells s v) u d = cM (cells s v) d.

Lemma caught_up_pays_nothing s u v d : caught_up s u v -> payv (cells s v) u d = 0.
Proof.
  intros H. rewrite payv_eq. unfold owed. rewrite H.
  rewrite (rnd34_zero _ (diff_self_num _ _)). destruct (0 <? cS (cells s v) d); reflexivity.
Qed.

Lemma caught_up_step s oo u v s' : caught_up s u v -> GI (s, ghost0) \/ True ->
  (match fst oo with OEndBlock _ => False | _ => True end) ->
  stepF s oo = Ok s' -> caught_up s' u v.
Proof.
  intros Hcu _ Hne Hst. destruct oo as [p o]. cbn [fst] in Hne.
  destruct p as [u1 v1|u1 v1 amt dn|u1 v1 amt dn rcp|u1 u2 v1 amt|now]; cbn [step] in Hst; try contradiction.
  - destruct (claim_inv s u1 v1 s' Hst) as (c' & Hcl & ->). intros d. cbn [cells].
    destruct (Z.eq_dec v v1) as [->|Hv]; [|rewrite upd_other by exact Hv; apply Hcu].
    rewrite upd_same. destruct (claim_cell_inv denoms _ _ _ Hcl) as [_ ->]. cbn [cchk cM].
    destruct (u =? u1); [reflexivity|apply Hcu].
  - destruct (delegate_inv s o u1 v1 amt dn s' Hst) as (c1 & share & Hcl & _ & _ & _ & _ & _ & ->). intros d. cbn [cells].
    destruct (Z.eq_dec v v1) as [->|Hv]; [|rewrite upd_other by exact Hv; apply Hcu].
    rewrite upd_same. unfold reshare. cbn [cchk cM]. destruct (claim_cell_inv denoms _ _ _ Hcl) as [_ ->]. cbn [cchk cM].
    destruct (u =? u1); [reflexivity|apply Hcu].
  - destruct (undelegate_inv s o u1 v1 amt dn rcp s' Hst) as (c1 & cost & b & Hcl & _ & _ & _ & _ & _ & _ & _ & _ & _ & ->). intros d. cbn [cells].
    destruct (Z.eq_dec v v1) as [->|Hv]; [|rewrite upd_other by exact Hv; apply Hcu].
    rewrite upd_same. unfold reshare. cbn [cchk cM]. destruct (claim_cell_inv denoms _ _ _ Hcl) as [_ ->]. cbn [cchk cM].
    destruct (u =? u1); [reflexivity|apply Hcu].
  - unfold send_share in Hst. destruct (csd (cells s v1)); [discriminate|].
    destruct (amt <=? 0); [discriminate|]. destruct (csh (cells s v1) u1 <? amt); [discriminate|].
    injection Hst as <-. intros d. unfold set_cell. cbn [cells].
    destruct (Z.eq_dec v v1) as [->|Hv]; [|rewrite upd_other by exact Hv; apply Hcu].
    rewrite upd_same. cbn [cchk cM]. apply Hcu.
Qed.

Lemma caught_up_exec tr : forall s u v, caught_up s u v -> no_endblock tr -> caught_up (execF s tr) u v.
Proof.
  induction tr as [|x tl IH]; intros s u v Hcu Hne; [exact Hcu|].
  inversion Hne as [|? ? Hx Htl]; subst. cbn [exec fold_left]. fold (execF (exec1 denoms true vals s x) tl).
  apply IH; [|exact Htl]. unfold exec1. destruct (stepF s x) as [s'| |] eqn:Hst; [|exact Hcu|exact Hcu].
  exact (caught_up_step s x u v s' Hcu (or_intror I) Hx Hst).
Qed.

Lemma claim_catches_up s u v s' : claim denoms true s u v = Ok s' -> caught_up s' u v.
Proof.
  intros H. destruct (claim_inv s u v s' H) as (c' & Hcl & ->). intros d. cbn [cells]. rewrite upd_same.
  exact (after_claim_chk _ u c' Hcl d).
Qed.

(* ---------- end of block: who is paid ---------- *)
Lemma gc_succeeds now : forall q ub mb, total (fst (gc_split now q)) <= mb BOND ->
  (forall e, In e q -> 0 <= u_amt e) ->
  exists r, gc true now q ub mb = Ok r.
Proof.
  induction q as [|e tl IH]; intros ub mb Hf Hnn; [eexists; reflexivity|].
  cbn [gc gc_split] in *. destruct (unix now <? unix (u_time e)); [eexists; reflexivity|]. cbn [andb].
  destruct (gc_split now tl) as [p k] eqn:Hsp.
  destruct (now <? u_time e).
  - cbn [fst] in Hf. destruct (IH ub mb Hf (fun x Hx => Hnn x (or_intror Hx))) as [[[q1 ub1] mb1] ->]. cbn. eexists. reflexivity.
  - cbn [fst] in Hf. rewrite total_cons in Hf.
    assert (Hp : 0 <= total p).
    { assert (Hin : forall x, In x p -> In x tl).
      { intros x Hx. apply (gc_split_partition now tl x). rewrite Hsp. left. exact Hx. }
      clear - Hin Hnn. induction p as [|a p IHp]; [cbn; lia|]. rewrite total_cons.
      pose proof (Hnn a (or_intror (Hin a (or_introl eq_refl)))).
      pose proof (IHp (fun x Hx => Hin x (or_intror Hx))). lia. }
    pose proof (Hnn e (or_introl eq_refl)).
    destruct (Z.ltb_spec (mb BOND) (u_amt e)); [lia|].
    apply IH; [|intros x Hx; apply Hnn; right; exact Hx]. cbn [fst]. rewrite upd_same. lia.
Qed.

(* ---------- shares are backed by the module's delegation ---------- *)
Definition BI (c : cell) : Prop := (forall b, cB c = Some b -> 0 < b) /\ (0 < cT c -> cB c <> None).
Definition TLIM : Z := 10 ^ 34.

Lemma ndig_le n k : 0 < n -> 0 <= k -> n < 10 ^ k -> ndig n <= k.
Proof.
  intros Hn Hk Hlt. destruct (ndig_spec n Hn) as (H1 & Hlo & _).
  destruct (Z.le_gt_cases (ndig n) k) as [|Hgt]; [assumption|]. exfalso.
  assert (10 ^ k <= 10 ^ (ndig n - 1)) by (apply Z.pow_le_mono_r; lia). lia.
Qed.

Lemma rnd34_pos_self x : 0 < x -> rnd34_pos x x = (E33, E33).
Proof.
  intros Hx. unfold rnd34_pos. rewrite Z.ltb_irrefl. change (10 ^ 0) with 1. rewrite !Z.mul_1_r, Z.ltb_irrefl.
  rewrite (Z.mul_comm x E33), Z.div_mul, Z.mod_mul by lia.
  destruct (Z.leb_spec x (2 * 0)); [lia|]. change (10 ^ 0) with 1. rewrite Z.mul_1_l. reflexivity.
Qed.

(* undelegating the whole delegation costs the whole share supply *)
Lemma E33_ndig : ndig E33 = 34. Proof. vm_compute. reflexivity. Qed.
Lemma pow67 : 10 ^ 67 = E33 * TLIM. Proof. vm_compute. reflexivity. Qed.
Lemma TLIM_val : TLIM = 10 * E33. Proof. vm_compute. reflexivity. Qed.
Lemma TLIM_bits : TLIM < BITS256. Proof. vm_compute. reflexivity. Qed.
Lemma E33_topos : Zpos (Z.to_pos E33 * 1) = E33. Proof. vm_compute. reflexivity. Qed.

Lemma calc_share_all T b : 0 < T < TLIM -> 0 < b -> calc_share T b b = Ok T.
Proof.
  intros HT Hb. unfold calc_share.
  destruct (Z.eqb_spec T 0) as [HT0|HT0]; [lia|]. destruct (Z.eqb_spec b 0) as [Hb0|Hb0]; [lia|].
  destruct b as [|p|p]; try lia.
  (* the ratio is exactly one *)
  assert (Hr : rnd34 (inject_Z (Zpos p) / inject_Z (Zpos p)) = Qmake E33 (Z.to_pos E33)).
  { unfold rnd34, Qdiv, Qinv, Qmult, inject_Z. cbn [Qnum Qden].
    replace (Zpos p * 1) with (Zpos p) by lia. replace (1 * p)%positive with p by lia.
    rewrite rnd34_pos_self by lia. reflexivity. }
  rewrite Hr. unfold dmul.
  destruct T as [|t|t]; try lia.
  unfold rnd34, Qmult, inject_Z. cbn [Qnum Qden].
  pose proof E33_pos as HEp.
  assert (HE : E33 * Zpos t = Zpos (Z.to_pos (E33 * Zpos t))) by (rewrite Z2Pos.id; [reflexivity|nia]).
  rewrite HE. rewrite E33_topos. set (nn := Zpos (Z.to_pos (E33 * Zpos t))).
  assert (Hn : nn = E33 * Zpos t) by (unfold nn; symmetry; exact HE).
  destruct (scale_spec nn E33 ltac:(lia) HEp) as (Ha & Hbb & Hn2 & Hd1 & Hd1p & Hle).
  (* the divisor is scaled by at most 10^33 *)
  assert (Hb33 : sc_b (scale nn E33) <= 33).
  { unfold scale. cbv zeta. cbn [sc_b]. rewrite E33_ndig.
    assert (Hdn : ndig nn <= 67).
    { apply ndig_le; [lia|lia|]. rewrite Hn, pow67. nia. }
    destruct (34 <? ndig nn); lia. }
  assert (Hmod : (sc_n2 (scale nn E33) * E33) mod sc_d1 (scale nn E33) = 0).
  { set (bb := sc_b (scale nn E33)) in *. set (aa := sc_a (scale nn E33)) in *.
    rewrite Hn2, Hd1, Hn.
    assert (HE33 : E33 = 10 ^ bb * 10 ^ (33 - bb)).
    { rewrite <- Z.pow_add_r by lia. replace (bb + (33 - bb)) with 33 by lia. reflexivity. }
    assert (Hfac : E33 * Zpos t * 10 ^ aa * E33 = Zpos t * 10 ^ aa * 10 ^ (33 - bb) * (E33 * 10 ^ bb)).
    { transitivity (E33 * Zpos t * 10 ^ aa * (10 ^ bb * 10 ^ (33 - bb))); [f_equal; exact HE33 | ring]. }
    rewrite Hfac. apply Z.mod_mul. pose proof (pow10_pos bb Hbb). nia. }
  pose proof (rnd34_pos_exact nn E33 ltac:(lia) HEp Hmod) as Hex.
  destruct (rnd34_pos nn E33) as [rn rd]. destruct Hex as [Hrd Heq].
  unfold mkq, trim_res, trim_int, trim. cbn [fst snd Qnum Qden]. rewrite Z2Pos.id by lia.
  rewrite Hn in Heq.
  assert (Hrn : rn = Zpos t * rd) by nia.
  rewrite Hrn, Z.quot_mul by lia.
  pose proof TLIM_bits. destruct (Z.ltb_spec (Z.abs (Zpos t)) BITS256) as [|Hge]; [reflexivity|]. lia.
Qed.

Definition Tbound (s : state) : Prop := forall v, cT (cells s v) < TLIM.

Lemma BI_step s g p o s' : GI (s, g) -> (forall v, BI (cells s v)) -> Tbound s -> wf_op p ->
  stepF s (p, o) = Ok s' -> forall v, BI (cells s' v).
Proof.
  intros HG HB HTb Hwf Hst v'. pose proof HG as (HC & _). cbn [fst snd] in HC.
  destruct p as [u v|u v amt dn|u v amt dn rcp|u u' v amt|now]; cbn [step] in Hst.
  - destruct (claim_inv s u v s' Hst) as (c' & Hcl & ->). cbn [cells].
    destruct (Z.eq_dec v' v) as [->|Hne]; [|rewrite upd_other by exact Hne; apply HB].
    rewrite upd_same. destruct (claim_cell_inv denoms _ _ _ Hcl) as [_ ->]. exact (HB v).
  - destruct (delegate_inv s o u v amt dn s' Hst) as (c1 & share & Hcl & Hks & Hsh & Ha & Hv & Hd & ->). cbn [cells].
    destruct (Z.eq_dec v' v) as [->|Hne]; [|rewrite upd_other by exact Hne; apply HB].
    rewrite upd_same. destruct (HB v) as [Hb1 Hb2].
    assert (HcB : cB c1 = cB (cells s v)) by (destruct (claim_cell_inv denoms _ _ _ Hcl) as [_ ->]; reflexivity).
    unfold BI, reshare. cbn [cB cT]. split; [|intros _; discriminate].
    intros b Hb. injection Hb as <-. rewrite HcB. destruct (cB (cells s v)) as [b0|] eqn:E; [specialize (Hb1 b0 eq_refl); lia|lia].
  - destruct (undelegate_inv s o u v amt dn rcp s' Hst) as (c1 & cost & b & Hcl & Hks & Hco & Ha & HB1 & He & Hv & Hr & Hd & Hret & ->). cbn [cells].
    destruct (Z.eq_dec v' v) as [->|Hne]; [|rewrite upd_other by exact Hne; apply HB].
    rewrite upd_same. unfold BI, reshare. cbn [cB cT].
    assert (HcT : cT c1 = cT (cells s v)) by (destruct (claim_cell_inv denoms _ _ _ Hcl) as [_ ->]; reflexivity).
    destruct (Z.eqb_spec (b - o_ret o) 0) as [Hz|Hz].
    + split; [intros b0 Hb0; discriminate|]. intros Hpos. exfalso.
      assert (b = amt) by lia. subst b.
      unfold k_calc_share in Hks. destruct (Z.eqb_spec (cT c1) 0) as [HT0|HT0]; [lia|].
      rewrite HB1 in Hks.
      destruct (CellOK_claim _ _ _ _ u c1 (HC v) Hwf Hcl) as (HS1 & _).
      pose proof (SI_T_nonneg users c1 HS1).
      rewrite (calc_share_all (cT c1) amt) in Hks; [|specialize (HTb v); lia|lia].
      injection Hks as <-. lia.
    + split; [|intros _; discriminate]. intros b0 Hb0. injection Hb0 as <-. lia.
  - exfalso. exact (send_never s g u u' v amt HG s' Hst).
  - unfold end_block in Hst.
    destruct (gc true now (queue s) (ubal s) (upd (mbal s) BOND (mbal s BOND + o_released o))) as [[[q' ub'] mb']| |]; try discriminate.
    injection Hst as <-. cbn [cells]. rewrite (accrue_all_spec o vals (cells s) NDv v').
    destruct (mem v' vals && is_some (cB (cells s v'))); [|apply HB].
    destruct (HC v') as (HS & _).
    destruct (accrue_cell_spec denoms users NDd (cells s v') (o_rw o v') HS) as (HT' & _ & _ & HB' & _).
    unfold BI. rewrite HT', HB'. apply HB.
Qed.

(* histories whose states keep every share supply below 10^34 *)
Inductive Reach (ub : Z -> Z -> Z) : state * ghost -> Prop :=
| Reach0 : Reach ub (init ub, ghost0)
| Reach1 sg oo : Reach ub sg -> wf_op (fst oo) -> Tbound (fst sg) -> Reach ub (gexec1 sg oo).

Lemma Reach_inv ub sg : Reach ub sg -> GI sg /\ forall v, BI (cells (fst sg) v).
Proof.
  induction 1 as [|sg oo HR [HG HB] Hwf HT].
  - split; [apply GI_init|]. intros v. cbn. split; [intros b Hb; discriminate Hb|intros Hp; inversion Hp].
  - split; [apply GI_gexec1; assumption|]. unfold gexec1. destruct oo as [p o]. cbn [fst] in *.
    destruct (stepF (fst sg) (p, o)) as [s'| |] eqn:Hst; [|exact HB|exact HB]. cbn [fst].
    destruct sg as [s g]. exact (BI_step s g p o s' HG HB HT Hwf Hst).
Qed.

(* ---------- a covered undelegation goes through ---------- *)
Definition SHLIM : Z := 10 ^ 32.

Lemma cost_le_shares T b amt sh : 0 < T -> 0 < b -> 0 < amt -> 0 <= sh < SHLIM -> amt * T <= b * sh ->
  exists cost, calc_share T b amt = Ok cost /\ 0 <= cost <= sh.
Proof.
  intros HT Hb Ha Hsh Hcov. unfold calc_share.
  destruct (Z.eqb_spec T 0); [lia|]. destruct (Z.eqb_spec b 0); [lia|].
  assert (HTq : (0 < inject_Z T)%Q) by (change 0%Q with (inject_Z 0); rewrite <- Zlt_Qlt; exact HT).
  assert (Hbq : (0 < inject_Z b)%Q) by (change 0%Q with (inject_Z 0); rewrite <- Zlt_Qlt; exact Hb).
  assert (Haq : (0 < inject_Z amt)%Q) by (change 0%Q with (inject_Z 0); rewrite <- Zlt_Qlt; exact Ha).
  assert (Hx : (0 < inject_Z amt / inject_Z b)%Q) by (apply Qlt_shift_div_l; lra).
  destruct (rnd34_pos_bounds _ Hx) as (Hr0 & Hr1 & _). set (r1 := rnd34 (inject_Z amt / inject_Z b)) in *.
  unfold dmul. assert (Hy : (0 < r1 * inject_Z T)%Q) by nra.
  destruct (rnd34_pos_bounds _ Hy) as (Hs0 & Hs1 & _). set (r2 := rnd34 (r1 * inject_Z T)) in *.
  destruct (trim_bounds r2 (Qlt_le_weak _ _ Hs0)) as (Ht0 & Ht1 & _).
  (* r2 <= (1+eta)^2 * sh *)
  assert (Hcq : (inject_Z amt * inject_Z T <= inject_Z b * inject_Z sh)%Q).
  { rewrite <- !inject_Z_mult, <- Zle_Qle. exact Hcov. }
  assert (Hdiv : (inject_Z amt / inject_Z b * inject_Z T <= inject_Z sh)%Q).
  { assert (inject_Z amt / inject_Z b * inject_Z T == inject_Z amt * inject_Z T / inject_Z b)%Q as -> by (field; lra).
    apply Qle_shift_div_r; [exact Hbq|]. lra. }
  assert (Hshq : (0 <= inject_Z sh)%Q) by (change 0%Q with (inject_Z 0); rewrite <- Zle_Qle; lia).
  assert (Hlim : (kappa * inject_Z sh < 1)%Q).
  { assert (Hl : (inject_Z sh <= inject_Z (SHLIM - 1))%Q) by (rewrite <- Zle_Qle; lia).
    assert (kappa * inject_Z (SHLIM - 1) < 1)%Q by (vm_compute; reflexivity). pose proof kappa_pos. nra. }
  assert (Hr2 : (r2 <= inject_Z sh + kappa * inject_Z sh)%Q).
  { pose proof eta_pos as Hep. set (x := (inject_Z amt / inject_Z b)%Q) in *.
    assert (H1 : (r1 * inject_Z T <= x * (1 + eta) * inject_Z T)%Q) by (apply Qmult_le_compat_r; lra).
    assert (H2 : (x * (1 + eta) * inject_Z T <= inject_Z sh * (1 + eta))%Q).
    { assert (x * (1 + eta) * inject_Z T == x * inject_Z T * (1 + eta))%Q as -> by ring. apply Qmult_le_compat_r; lra. }
    assert (H3 : (r1 * inject_Z T * (1 + eta) <= inject_Z sh * (1 + eta) * (1 + eta))%Q) by (apply Qmult_le_compat_r; lra).
    unfold kappa. lra. }
  assert (Hts : trim r2 <= sh).
  { apply (kappa_slack_int _ _ (kappa * inject_Z sh)%Q 0%Q); [lra|exact Hlim]. }
  unfold trim_res, trim_int. destruct (Z.ltb_spec (Z.abs (trim r2)) BITS256) as [|Hge].
  - exists (trim r2). split; [reflexivity|lia].
  - exfalso. assert (SHLIM < BITS256) by (vm_compute; reflexivity). lia.
Qed.

(* the shares burned for an amount are worth the amount, up to the floor and the roundings *)
Lemma cost_covers_amount T b amt cost : 0 < T -> 0 < b -> 0 < amt -> amt * T < b * SHLIM ->
  calc_share T b amt = Ok cost -> amt * T <= (cost + 2) * b.
Proof.
  intros HT Hb Ha Hlim. unfold calc_share.
  destruct (Z.eqb_spec T 0); [lia|]. destruct (Z.eqb_spec b 0); [lia|].
  assert (HTq : (0 < inject_Z T)%Q) by (change 0%Q with (inject_Z 0); rewrite <- Zlt_Qlt; exact HT).
  assert (Hbq : (0 < inject_Z b)%Q) by (change 0%Q with (inject_Z 0); rewrite <- Zlt_Qlt; exact Hb).
  assert (Haq : (0 < inject_Z amt)%Q) by (change 0%Q with (inject_Z 0); rewrite <- Zlt_Qlt; exact Ha).
  assert (Hx : (0 < inject_Z amt / inject_Z b)%Q) by (apply Qlt_shift_div_l; lra).
  destruct (rnd34_pos_bounds _ Hx) as (Hr0 & _ & Hr1). set (x := (inject_Z amt / inject_Z b)%Q) in *.
  set (r1 := rnd34 x) in *.
  unfold dmul. assert (Hy : (0 < r1 * inject_Z T)%Q) by nra.
  destruct (rnd34_pos_bounds _ Hy) as (Hs0 & _ & Hs1). set (r2 := rnd34 (r1 * inject_Z T)) in *.
  destruct (trim_bounds r2 (Qlt_le_weak _ _ Hs0)) as (Ht0 & _ & Ht1).
  unfold trim_res, trim_int. destruct (Z.abs (trim r2) <? BITS256); intros Hc; [|discriminate]. injection Hc as <-.
  (* x * T < 10^32 *)
  assert (HxT : (x * inject_Z T < inject_Z SHLIM)%Q).
  { unfold x. assert (inject_Z amt / inject_Z b * inject_Z T == inject_Z amt * inject_Z T / inject_Z b)%Q as -> by (field; lra).
    apply Qlt_shift_div_r; [exact Hbq|]. rewrite <- !inject_Z_mult, <- Zlt_Qlt. lia. }
  assert (HxTp : (0 < x * inject_Z T)%Q) by nra.
  assert (Hslack : (2 * eta * inject_Z SHLIM < 1)%Q) by (vm_compute; reflexivity).
  pose proof eta_pos as Hep.
  assert (H1 : (x * (1 - eta) * inject_Z T <= r1 * inject_Z T)%Q) by (apply Qmult_le_compat_r; lra).
  assert (H2 : (r1 * inject_Z T * (1 - eta) <= r2)%Q) by exact Hs1.
  assert (H3 : (x * inject_Z T * (1 - eta) * (1 - eta) <= r2)%Q).
  { assert (Hm : (x * (1 - eta) * inject_Z T * (1 - eta) <= r1 * inject_Z T * (1 - eta))%Q).
    { apply Qmult_le_compat_r; [exact H1|]. assert (eta < 1)%Q by reflexivity. lra. }
    assert (x * inject_Z T * (1 - eta) * (1 - eta) == x * (1 - eta) * inject_Z T * (1 - eta))%Q as -> by ring. lra. }
  assert (H4 : (x * inject_Z T - 1 < r2)%Q) by nra.
  assert (H5 : (x * inject_Z T < inject_Z (trim r2 + 2))%Q).
  { rewrite inject_Z_plus in Ht1. rewrite inject_Z_plus. change (inject_Z 1) with 1%Q in Ht1. change (inject_Z 2) with 2%Q. lra. }
  (* back to integers *)
  assert (H6 : (inject_Z amt * inject_Z T < inject_Z (trim r2 + 2) * inject_Z b)%Q).
  { assert (He : (x * inject_Z T * inject_Z b == inject_Z amt * inject_Z T)%Q) by (unfold x; field; lra).
    rewrite <- He. apply Qmult_lt_compat_r; assumption. }
  rewrite <- !inject_Z_mult, <- Zlt_Qlt in H6. lia.
Qed.

Lemma undelegate_available_of_GI sg o u v amt rcp b :
  GI sg -> In u users -> 0 <= v -> 0 <= rcp -> 0 < amt ->
  cB (cells (fst sg) v) = Some b ->
  amt * cT (cells (fst sg) v) <= b * csh (cells (fst sg) v) u ->
  0 < cT (cells (fst sg) v) -> csh (cells (fst sg) v) u < SHLIM ->
  cent (cells (fst sg) v) < o_max o -> 0 <= o_ret o <= amt ->
  (forall d, In d denoms -> (kappa * inject_Z (g_recv (snd sg) v d) < 1)%Q) ->
  exists s', undelegate denoms true (fst sg) o u v amt FEE rcp = Ok s'.
Proof.
  intros HG Hu Hv Hr Ha HB Hcov HT Hsl He Hret Hk. pose proof HG as (HC & _).
  destruct (HC v) as (HS & _ & HR & _).
  destruct (claim_cell_succeeds denoms users (cells (fst sg) v) u (g_recv (snd sg) v) HS Hu) as [c1 Hc1].
  { intros d Hd. split; [apply HR|apply Hk; exact Hd]. }
  destruct (claim_cell_inv denoms _ _ _ Hc1) as [_ Hc1eq].
  assert (HT1 : cT c1 = cT (cells (fst sg) v)) by (rewrite Hc1eq; reflexivity).
  assert (Hsh1 : csh c1 = csh (cells (fst sg) v)) by (rewrite Hc1eq; reflexivity).
  assert (HB1 : cB c1 = cB (cells (fst sg) v)) by (rewrite Hc1eq; reflexivity).
  assert (He1 : cent c1 = cent (cells (fst sg) v)) by (rewrite Hc1eq; reflexivity).
  destruct HS as (HTs & Hs & _).
  assert (Hshle : csh (cells (fst sg) v) u <= cT (cells (fst sg) v)).
  { rewrite HTs. apply sumZ_member_le; [intros; apply Hs|exact Hu]. }
  pose proof (Hs u) as Hsu. assert (Hbpos : 0 < b) by nia.
  destruct (cost_le_shares (cT (cells (fst sg) v)) b amt (csh (cells (fst sg) v) u) HT Hbpos Ha ltac:(specialize (Hs u); lia) Hcov)
    as (cost & Hcost & Hcl).
  unfold undelegate, do_claim. rewrite Z.eqb_refl. cbn [negb].
  destruct (Z.leb_spec amt 0); [lia|]. rewrite Hc1. cbn.
  unfold k_calc_share. rewrite HT1, HB1, HB. destruct (Z.eqb_spec (cT (cells (fst sg) v)) 0); [lia|].
  rewrite Hcost. cbn. destruct (Z.ltb_spec cost 0); [lia|]. rewrite Hsh1.
  destruct (Z.ltb_spec (csh (cells (fst sg) v) u) cost); [lia|].
  destruct (Z.ltb_spec v 0); [lia|]. rewrite ?HB1, ?HB.
  assert (amt <= b) by nia.
  destruct (Z.ltb_spec b amt); [lia|]. rewrite ?He1.
  destruct (Z.leb_spec (o_max o) (cent (cells (fst sg) v))); [lia|].
  destruct (Z.ltb_spec rcp 0); [lia|].
  destruct (Z.ltb_spec (o_ret o) 0); [lia|]. destruct (Z.ltb_spec amt (o_ret o)); [lia|]. cbn [orb].
  eexists. reflexivity.
Qed.
End Sys.

(* ================= witnesses (computed on the model) ================= *)
Definition wD : list Z := [0; 1].
Definition wV : list Z := [0].
Definition orc0 : oracle := mkOracle 0 7 (fun _ => 0) (fun _ _ => 0) 0 0.
Definition orc_ret (r : Z) : oracle := mkOracle 0 7 (fun _ => 0) (fun _ _ => 0) 0 r.
Definition orc_rw (r : Z) : oracle := mkOracle 0 7 (fun _ => 0) (fun v d => if (v =? 0) && (d =? 0) then r else 0) 0 0.
Definition ub1000 : Z -> Z -> Z := fun _ d => if d =? 0 then 1000 else 0.
(* observe a result without normalising the state (states contain functions) *)
Definition obs {A} (r : res state) (f : state -> A) (dflt : A) : A := match r with Ok s => f s | _ => dflt end.
Definition is_err (r : res state) (e : Z) : bool := match r with Err e' => e' =? e | _ => false end.

(* two delegators (100 and 300 shares), 40 coins of rewards, then delegator 1 claims three times *)
Definition w_trace : list (op * oracle) :=
  [(ODelegate 1 0 100 0, orc0); (ODelegate 2 0 300 0, orc0); (OEndBlock 1000, orc_rw 40);
   (OClaim 1 0, orc0); (OClaim 1 0, orc0); (OClaim 1 0, orc0)].

(* before the repair (checkpoint never written) the third claim of delegator 1 is paid again and
   delegator 2, who is owed 30, cannot claim; with the repair delegator 2 is paid *)
Lemma checkpoint_never_written_refuted :
  let s := exec wD false wV (init ub1000) w_trace in
  cS (cells s 0) 0 = 10 /\ ubal s 1 0 = 930 /\ is_err (claim wD false s 2 0) E_INSUFFICIENT = true.
Proof. vm_compute. repeat split; reflexivity. Qed.
Lemma checkpoint_repaired_witness :
  let s := exec wD true wV (init ub1000) w_trace in
  cS (cells s 0) 0 = 30 /\ ubal s 1 0 = 910 /\ obs (claim wD true s 2 0) (fun s' => ubal s' 2 0) (-1) = 730.
Proof. vm_compute. repeat split; reflexivity. Qed.

(* an unbonding that completes at .6 s of a second; the block at .1 s of the same second:
   before the repair the end-blocker tries to pay it from funds staking has not released *)
Definition w_queue : list unb := [mkUnb 0 3 10600000000 500].
Lemma subsecond_unfixed_refuted :
  (match gc false 10100000000 w_queue ub1000 (fun _ => 0) with Err e => e =? E_INSUFFICIENT | _ => false end) = true /\
  (match gc true 10100000000 w_queue ub1000 (fun _ => 0) with Ok (q, _, _) => length q | _ => 0%nat end) = 1%nat.
Proof. vm_compute. split; reflexivity. Qed.

(* known finding 1: a delegator whose shares cover the amount is refused because the module's
   (delegator, validator) pair is at staking's max_entries, filled by other delegators *)
Lemma max_entries_finding :
  let s0 := exec wD true wV (init ub1000) [(ODelegate 1 0 100 0, orc0); (ODelegate 2 0 300 0, orc0)] in
  let s := set_cell s0 0 (let c := cells s0 0 in mkCell (cT c) (csh c) (cmodsh c) (cB c) (csd c) 7 (cS c) (cM c) (cchk c)) in
  csh (cells s 0) 2 = 300 /\ is_err (undelegate wD true s (orc_ret 10) 2 0 10 FEE 2) E_MAX_ENTRIES = true.
Proof. vm_compute. split; reflexivity. Qed.

(* known finding 2: with 3 shares against 3 staked coins, an account holding no shares
   undelegates 1 coin: the share price of the amount rounds down to zero *)
Lemma zero_cost_finding :
  let s := exec wD true wV (init ub1000) [(ODelegate 1 0 3 0, orc0)] in
  let r := undelegate wD true s (orc_ret 1) 2 0 1 FEE 2 in
  csh (cells s 0) 2 = 0 /\ k_calc_share (cells s 0) 1 = Ok 0 /\
  obs r (fun s' => cT (cells s' 0)) (-1) = 3 /\ obs r (fun s' => cB (cells s' 0)) None = Some 2 /\
  obs r (fun s' => map u_amt (queue s')) [] = [1].
Proof. vm_compute. repeat split; reflexivity. Qed.

(* ================= statements over all histories ================= *)
Section Final.
Variables (denoms users vals : list Z).
Hypothesis NDd : NoDup denoms.
Hypothesis NDu : NoDup users.
Hypothesis NDv : NoDup vals.
Variable ub : Z -> Z -> Z.

Definition run_g (tr : list (op * oracle)) : state * ghost := gexec denoms vals (init ub, ghost0) tr.

Lemma run_g_state tr : fst (run_g tr) = exec denoms true vals (init ub) tr.
Proof. apply gexec_fst. Qed.

Lemma run_g_GI tr : wf_trace users tr -> GI users (run_g tr).
Proof. intros H. apply (GI_gexec denoms users vals NDd NDu NDv tr _ (GI_init users ub) H). Qed.

Lemma shares_backed sg : Reach denoms users vals ub sg -> forall v,
  let c := cells (fst sg) v in
  cT c = sumZ (csh c) users /\ (forall u, 0 <= csh c u) /\ cmodsh c = 0 /\
  (0 < cT c -> exists b, cB c = Some b /\ 0 < b).
Proof.
  intros HR v. destruct (Reach_inv denoms users vals NDd NDu NDv ub sg HR) as [(HC & _) HB].
  destruct (HC v) as ((H1 & H2 & _ & H4) & _). destruct (HB v) as [Hb1 Hb2]. cbv zeta.
  repeat split; try assumption.
  intros Hp. destruct (cB (cells (fst sg) v)) as [b|] eqn:E; [|exfalso; exact (Hb2 Hp eq_refl)].
  exists b. split; [reflexivity|apply Hb1; reflexivity].
Qed.

Lemma share_not_transferable tr : wf_trace users tr ->
  let s := exec denoms true vals (init ub) tr in
  forall u u' v amt,
    (forall s', send_share s u u' v amt <> Ok s') /\
    (0 < csh (cells s v) u -> send_share s u u' v amt = Err E_SEND_DISABLED).
Proof.
  intros Hwf s u u' v amt. pose proof (run_g_GI tr Hwf) as HG. subst s. rewrite <- run_g_state.
  destruct (run_g tr) as [s g] eqn:E. cbn [fst]. split; [eapply send_never; exact HG|].
  intros Hp. destruct HG as (HC & _). destruct (HC v) as ((HT & Hs & Hnot & _) & Hsd & _). cbn [fst] in *.
  assert (0 < cT (cells s v)).
  { rewrite HT. destruct (in_dec Z.eq_dec u users) as [Hi|Hn].
    - pose proof (sumZ_member_le (csh (cells s v)) users u (fun u' _ => Hs u') Hi). lia.
    - rewrite (Hnot u Hn) in Hp. lia. }
  unfold send_share. rewrite (Hsd H). reflexivity.
Qed.

Lemma undelegate_available tr o u v amt rcp b : wf_trace users tr ->
  let s := fst (run_g tr) in let g := snd (run_g tr) in
  In u users -> 0 <= v -> 0 <= rcp -> 0 < amt ->
  cB (cells s v) = Some b -> amt * cT (cells s v) <= b * csh (cells s v) u ->
  0 < cT (cells s v) -> csh (cells s v) u < SHLIM -> cent (cells s v) < o_max o ->
  0 <= o_ret o <= amt ->
  (forall d, In d denoms -> (kappa * inject_Z (g_recv g v d) < 1)%Q) ->
  exists s', undelegate denoms true s o u v amt FEE rcp = Ok s'.
Proof.
  intros Hwf s g. subst s g. pose proof (run_g_GI tr Hwf) as HG. intros. eapply undelegate_available_of_GI; eassumption.
Qed.

Lemma undelegate_accounted_once tr : wf_trace users tr ->
  forall r, g_und (snd (run_g tr)) r = g_out (snd (run_g tr)) r + pending (queue (fst (run_g tr))) r.
Proof. intros Hwf. destruct (run_g_GI tr Hwf) as (_ & _ & H). exact H. Qed.

Lemma end_block_pays_complete_only now q ubl mb q' ub' mb' : sorted q ->
  gc true now q ubl mb = Ok (q', ub', mb') ->
  (forall e, In e q' <-> In e q /\ now < u_time e) /\
  (forall r, ub' r FEE = ubl r FEE + pending q r - pending q' r) /\
  (forall r d, d <> FEE -> ub' r d = ubl r d).
Proof.
  intros Hs Hg. destruct (gc_spec now q ubl mb q' ub' mb' Hg) as (Hq & Hub & _). subst q'.
  split; [|split].
  - intros e. split.
    + intros He. split; [apply (gc_split_partition now q e); right; exact He| exact (gc_split_kept_immature now q e Hs He)].
    + intros [He Ht]. apply (gc_split_partition now q e) in He. destruct He as [He|He]; [|exact He].
      pose proof (gc_split_paid_mature now q e He). lia.
  - intros r. rewrite Hub, Z.eqb_refl. rewrite (gc_split_pending now q r). lia.
  - intros r d Hd. rewrite Hub. destruct (Z.eqb_spec d FEE); [contradiction|lia].
Qed.

Lemma claim_le_entitlement tr u v d : wf_trace users tr ->
  (inject_Z (g_paid (snd (run_g tr)) u v d) <= (1 + eta) * (1 + eta) * g_ent (snd (run_g tr)) u v d)%Q.
Proof. intros Hwf. pose proof (run_g_GI tr Hwf) as HG. eapply paid_le_entitlement_of_GI; eassumption. Qed.

Lemma claims_le_received tr v d : wf_trace users tr ->
  sumZ (fun u => g_paid (snd (run_g tr)) u v d) users <= g_recv (snd (run_g tr)) v d /\
  ((kappa * inject_Z (g_recv (snd (run_g tr)) v d) < 1)%Q ->
   sumZ (fun u => payv (cells (fst (run_g tr)) v) u d) users <= cS (cells (fst (run_g tr)) v) d).
Proof.
  intros Hwf. pose proof (run_g_GI tr Hwf) as HG. split.
  - eapply paid_le_received_of_GI; eassumption.
  - eapply solvent_of_GI; eassumption.
Qed.

Lemma second_claim_zero s u v s1 tr : claim denoms true s u v = Ok s1 -> no_endblock tr ->
  forall d, payv (cells (exec denoms true vals s1 tr) v) u d = 0.
Proof.
  intros Hc Hne d. apply caught_up_pays_nothing.
  exact (caught_up_exec denoms users vals tr s1 u v (claim_catches_up denoms s u v s1 Hc) Hne).
Qed.

Lemma claim_never_blocked tr u v : wf_trace users tr -> In u users ->
  (forall d, In d denoms -> (kappa * inject_Z (g_recv (snd (run_g tr)) v d) < 1)%Q) ->
  exists s', claim denoms true (fst (run_g tr)) u v = Ok s'.
Proof. intros Hwf Hu Hk. pose proof (run_g_GI tr Hwf) as HG. eapply claim_available_of_GI; eassumption. Qed.
End Final.
