package c18

import (
	"context"
	"fmt"
	"time"

	"cosmossdk.io/core/header"
	banktypes "cosmossdk.io/x/bank/types"
	"cosmossdk.io/x/feegrant"
	feegrantkeeper "cosmossdk.io/x/feegrant/keeper"
	txsigning "cosmossdk.io/x/tx/signing"
	abci "github.com/cometbft/cometbft/abci/types"
	"github.com/cosmos/cosmos-sdk/baseapp"
	codectypes "github.com/cosmos/cosmos-sdk/codec/types"
	sdk "github.com/cosmos/cosmos-sdk/types"
	"github.com/cosmos/cosmos-sdk/types/tx/signing"
	authsign "github.com/cosmos/cosmos-sdk/x/auth/signing"
	"google.golang.org/protobuf/types/known/anypb"

	"verifharness/apph"
	"verifharness/emit"
)

func feegrantMsgServer(h *apph.H) feegrant.MsgServer {
	return feegrantkeeper.NewMsgServerImpl(h.App.FeeGrantKeeper)
}

// signTx builds and signs a transaction with the application's TxConfig.
func signTx(h *apph.H, ctx sdk.Context, signer apph.Acct, msgs []sdk.Msg, fee sdk.Coins, gas uint64, granter sdk.AccAddress) ([]byte, error) {
	txc := h.App.TxConfig()
	acc := h.App.AuthKeeper.GetAccount(ctx, signer.Addr)
	if acc == nil {
		return nil, fmt.Errorf("signer has no account")
	}
	b := txc.NewTxBuilder()
	if err := b.SetMsgs(msgs...); err != nil {
		return nil, err
	}
	b.SetFeeAmount(fee)
	b.SetGasLimit(gas)
	if granter != nil {
		b.SetFeeGranter(granter)
	}
	mode := txc.SignModeHandler().DefaultMode()
	sig := signing.SignatureV2{PubKey: signer.Priv.PubKey(), Data: &signing.SingleSignatureData{SignMode: mode}, Sequence: acc.GetSequence()}
	if err := b.SetSignatures(sig); err != nil {
		return nil, err
	}
	anyPk, err := codectypes.NewAnyWithValue(signer.Priv.PubKey())
	if err != nil {
		return nil, err
	}
	sd := txsigning.SignerData{Address: signer.Addr.String(), ChainID: apph.ChainID, AccountNumber: acc.GetAccountNumber(),
		Sequence: acc.GetSequence(), PubKey: &anypb.Any{TypeUrl: anyPk.TypeUrl, Value: anyPk.Value}}
	sb, err := authsign.GetSignBytesAdapter(context.Background(), txc.SignModeHandler(), mode, sd, b.GetTx())
	if err != nil {
		return nil, err
	}
	s, err := signer.Priv.Sign(sb)
	if err != nil {
		return nil, err
	}
	sig.Data.(*signing.SingleSignatureData).Signature = s
	if err := b.SetSignatures(sig); err != nil {
		return nil, err
	}
	return txc.TxEncoder()(b.GetTx())
}

// blockStep keeps a whole run inside one minute epoch (the epoch hook mints into the fee collector).
const blockStep = time.Millisecond

func blockNoise(evs []abci.Event, accts []sdk.AccAddress) bool {
	watched := map[string]bool{}
	for _, a := range accts {
		watched[a.String()] = true
	}
	for _, ev := range evs {
		switch ev.Type {
		case "coinbase", "burn":
			return true
		case "coin_received", "coin_spent":
			who, amt := "", ""
			for _, at := range ev.Attributes {
				switch at.Key {
				case "receiver", "spender":
					who = at.Value
				case "amount":
					amt = at.Value
				}
			}
			if watched[who] && amt != "" {
				return true
			}
		}
	}
	return false
}

// checkCtx reads the application's CheckTx state.
func checkCtx(h *apph.H) sdk.Context {
	return h.App.NewContext(true).WithHeaderInfo(header.Info{Height: h.Height, Time: h.Time, ChainID: apph.ChainID})
}

// appCase: one signed transaction through the real CheckTx (new / recheck) or FinalizeBlock.
func (e *env) appCase() error {
	h, r := e.h, e.r
	// configuration changes (committed by the block below)
	if r.Chance(1, 4) || e.curMgp == "" {
		e.curMgp = mgpConfigs[r.Intn(len(mgpConfigs))]
		if e.curMgp == "" {
			e.curMgp = "-"
		}
	}
	mgpStr := e.curMgp
	if mgpStr == "-" {
		mgpStr = ""
	}
	baseapp.SetMinGasPrices(mgpStr)(h.App.BaseApp)
	_, mgp := parseMgp(mgpStr)
	p := paramConfigs[0]
	if r.Chance(1, 3) {
		p = paramConfigs[r.Intn(len(paramConfigs))]
	}
	ctx := h.Ctx()
	fp, err := h.App.FeeKeeper.Params.Get(ctx)
	if err != nil {
		return err
	}
	fp.FeeDenom, fp.BypassDenoms = p.FeeDenom, p.Bypass
	if err := h.App.FeeKeeper.Params.Set(ctx, fp); err != nil {
		return err
	}
	pi, gi := r.Intn(3), 3+r.Intn(2)
	payer, granterAcc, byst := h.Accts[pi], h.Accts[gi], h.Accts[7]
	var in anteIn
	in.Params = &p
	switch k := r.Intn(10); {
	case k < 6:
		in.Mode = 0
	case k < 8:
		in.Mode = 7
	default:
		in.Mode = 1
	}
	in.Gas = genGas(r, false)
	fee := genFee(r, p, mgp, in.Gas, false)
	grantKind := grantNone
	switch k := r.Intn(10); {
	case k < 6:
		in.Granter = 0
	case k == 6:
		in.Granter = 1
	default:
		in.Granter = 2
		grantKind = r.Intn(nGrantKinds)
	}
	pb, gb := genBalances(r, fee), genBalances(r, fee)
	for _, d := range validDenoms {
		if err := setBal(h, ctx, payer.Addr, d, pb[d]); err != nil {
			return err
		}
		if err := setBal(h, ctx, granterAcc.Addr, d, gb[d]); err != nil {
			return err
		}
	}
	var granter sdk.AccAddress
	switch in.Granter {
	case 1:
		granter = payer.Addr
	case 2:
		granter = granterAcc.Addr
		if err := installGrant(h, ctx, granter, payer.Addr, grantKind, fee); err != nil {
			return fmt.Errorf("grant set-up: %w", err)
		}
	}
	// commit the set-up; this also sweeps the fee collector and refreshes the CheckTx state
	if _, err := h.NextBlock(blockStep); err != nil {
		return fmt.Errorf("set-up block: %w", err)
	}
	// the message: a send that works, or one that fails after the ante handler (uvrise is send-disabled)
	msgFails := r.Chance(1, 4)
	var msgs []sdk.Msg
	if msgFails {
		msgs = []sdk.Msg{&banktypes.MsgSend{FromAddress: payer.Addr.String(), ToAddress: byst.Addr.String(), Amount: sdk.NewCoins(sdk.NewInt64Coin("uvrise", 1))}}
	} else {
		// a self-send leaves every watched balance as the fee deduction left it
		msgs = []sdk.Msg{&banktypes.MsgSend{FromAddress: payer.Addr.String(), ToAddress: payer.Addr.String(), Amount: sdk.NewCoins(sdk.NewInt64Coin("uosmo", 1))}}
	}
	bz, err := signTx(h, h.Ctx(), payer, msgs, sdkCoins(fee), in.Gas, granter)
	if err != nil {
		return fmt.Errorf("sign: %w", err)
	}
	// what the decorator will be handed: the decoded fee set
	dtx, err := h.App.TxConfig().TxDecoder()(bz)
	if err != nil {
		return fmt.Errorf("generated tx does not decode: %w", err)
	}
	ftx := dtx.(sdk.FeeTx)
	in.Fee = fromSdk(ftx.GetFee())
	accts := []sdk.AccAddress{payer.Addr, granterAcc.Addr, collector, byst.Addr}
	oracle := func(c sdk.Context) string {
		if in.Granter != 2 {
			return "(Ok tt)"
		}
		oc, _ := c.CacheContext()
		var oerr error
		func() {
			defer func() {
				if r := recover(); r != nil {
					oerr = fmt.Errorf("panic: %v", r)
				}
			}()
			oerr = h.App.FeeGrantKeeper.UseGrantedFees(oc, granter, payer.Addr, ftx.GetFee(), dtx.GetMsgs())
		}()
		return allowTerm(oerr)
	}
	var pre, post []string
	var space string
	var code uint32
	var log string
	antePassed := false
	switch in.Mode {
	case 0, 1:
		in.Height = h.Height
		in.Mgp = mgp
		cc := checkCtx(h)
		in.AllowErr = oracle(cc)
		pre = view(h, cc, accts)
		typ := abci.CHECK_TX_TYPE_CHECK
		if in.Mode == 1 {
			typ = abci.CHECK_TX_TYPE_RECHECK
		}
		resp, err := h.App.CheckTx(&abci.CheckTxRequest{Tx: bz, Type: typ})
		if err != nil {
			return fmt.Errorf("CheckTx: %w", err)
		}
		space, code, log = resp.Codespace, resp.Code, resp.Log
		post = view(h, checkCtx(h), accts)
	default:
		in.Height = h.Height + 1
		in.Mgp = nil // baseapp hands min gas prices to the CheckTx state only
		c0 := h.CtxAt(h.Time.Add(blockStep))
		in.AllowErr = oracle(c0)
		pre = view(h, h.Ctx(), accts)
		resp, err := h.Block(blockStep, [][]byte{bz})
		if err != nil {
			return fmt.Errorf("block with tx: %w", err)
		}
		if len(resp.TxResults) != 1 {
			return fmt.Errorf("expected one tx result")
		}
		// begin/end blockers that mint, burn or move watched funds (the minute epoch mints into the
		// fee collector) would be attributed to the transaction: such a block is not an observation
		if blockNoise(resp.Events, accts) {
			e.st.Count("ante/app/MFinalize/skipped:block-hooks-moved-funds")
			return nil
		}
		space, code, log = resp.TxResults[0].Codespace, resp.TxResults[0].Code, resp.TxResults[0].Log
		// ante events are attached to a failed result only when the ante handler had passed
		for _, ev := range resp.TxResults[0].Events {
			if ev.Type == sdk.EventTypeTx {
				for _, at := range ev.Attributes {
					if at.Key == sdk.AttributeKeyFee {
						antePassed = true
					}
				}
			}
		}
		post = view(h, h.Ctx(), accts)
	}
	obs := "(Ok 0)"
	if code != 0 {
		obs = classOf(space, code)
		// a message that fails after a successful ante handler: the fee decision was "admit"
		if in.Mode == 7 && antePassed {
			obs = "(Ok 0)"
		}
	}
	info := map[string]any{"kind": "ante-app", "mode": modeNames[in.Mode], "height": in.Height, "gas": in.Gas,
		"fee_built": strCoins(fee), "fee_decoded": strCoins(in.Fee), "min_gas_prices": mgpStr, "params": p, "granter": in.Granter,
		"grant_kind": grantKind, "allow": in.AllowErr, "code": code, "codespace": space, "msg_fails": msgFails, "result": obs,
		"payer": pi, "pre": pre, "post": post}
	if code != 0 {
		info["log"] = log
	}
	info["ante_passed_msg_failed"] = code != 0 && antePassed
	e.emitAnte(in, pre, obs, post, true, info)
	return nil
}

var _ = emit.ZI
