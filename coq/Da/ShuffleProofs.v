(* Proofs about Da/Shuffle.v: for EVERY stream of draws the result of GetRandomIndicesFromSeed
   has min(threshold, n) entries, without duplicates, all in [0, n); and it does not panic
   when the draws respect uint64n's contract (draw at counter i lies in [0, i]). *)
From Coq Require Import ZArith List Bool Lia Arith FinFun.
From Sunrise Require Import Da.Shuffle.
Import ListNotations.
Local Open Scope Z_scope.

Lemma upd_length : forall l i v, length (upd l i v) = length l.
Proof.
  induction l as [|a l IH]; intros i v; [reflexivity|].
  destruct i; simpl; [reflexivity|]. rewrite IH. reflexivity.
Qed.

Lemma nth_upd : forall l i v q d, (i < length l)%nat ->
  nth q (upd l i v) d = if Nat.eqb q i then v else nth q l d.
Proof.
  induction l as [|a l IH]; intros i v q d Hi; simpl in Hi; [lia|].
  destruct i as [|i]; destruct q as [|q]; simpl; try reflexivity.
  apply IH. lia.
Qed.

Lemma In_upd : forall l i v x, In x (upd l i v) -> x = v \/ In x l.
Proof.
  induction l as [|a l IH]; intros i v x H; simpl in H; [contradiction|].
  destruct i as [|i]; simpl in H.
  - destruct H as [H|H]; [left; symmetry; exact H|right; right; exact H].
  - destruct H as [H|H]; [right; left; exact H|].
    destruct (IH _ _ _ H) as [H'|H']; [left; exact H'|right; right; exact H'].
Qed.

Lemma nth_error_nth' : forall (l : list Z) i a d, nth_error l i = Some a ->
  (i < length l)%nat /\ nth i l d = a.
Proof.
  intros l i a d H. split.
  - apply nth_error_Some. rewrite H. discriminate.
  - apply nth_error_nth. exact H.
Qed.

(* a swap keeps the length and the set of elements *)
Lemma swap_spec : forall l i j l', swap l i j = Some l' ->
  length l' = length l /\ (forall x, In x l' -> In x l) /\ (forall x, In x l -> In x l').
Proof.
  intros l i j l' H. unfold swap in H.
  destruct (nth_error l i) as [a|] eqn:Ea; [|discriminate].
  destruct (nth_error l j) as [b|] eqn:Eb; [|discriminate].
  inversion H; subst l'; clear H.
  destruct (nth_error_nth' l i a 0 Ea) as [Hi Hai].
  destruct (nth_error_nth' l j b 0 Eb) as [Hj Hbj].
  assert (Hnth : forall q, nth q (upd (upd l i b) j a) 0 =
                 if Nat.eqb q j then a else if Nat.eqb q i then b else nth q l 0).
  { intro q. rewrite nth_upd by (rewrite upd_length; exact Hj).
    destruct (Nat.eqb q j); [reflexivity|]. apply nth_upd. exact Hi. }
  split; [rewrite !upd_length; reflexivity|]. split.
  - intros x Hx. apply In_upd in Hx. destruct Hx as [->|Hx].
    + apply nth_error_In with (n := i). exact Ea.
    + apply In_upd in Hx. destruct Hx as [->|Hx]; [|exact Hx].
      apply nth_error_In with (n := j). exact Eb.
  - intros x Hx. destruct (In_nth l x 0 Hx) as [p [Hp Hpx]].
    set (p' := if Nat.eqb p i then j else if Nat.eqb p j then i else p).
    assert (Hp' : (p' < length l)%nat).
    { unfold p'. destruct (Nat.eqb p i); [exact Hj|]. destruct (Nat.eqb p j); [exact Hi|exact Hp]. }
    assert (Hv : nth p' (upd (upd l i b) j a) 0 = x).
    { rewrite Hnth. unfold p'.
      destruct (Nat.eqb p i) eqn:Epi.
      - apply Nat.eqb_eq in Epi. subst p. rewrite Nat.eqb_refl. rewrite <- Hpx. exact (eq_sym Hai).
      - destruct (Nat.eqb p j) eqn:Epj.
        + apply Nat.eqb_eq in Epj. subst p.
          destruct (Nat.eqb i j) eqn:Eij.
          * apply Nat.eqb_eq in Eij. subst j. rewrite Nat.eqb_refl in Epi. discriminate.
          * rewrite Nat.eqb_refl. rewrite <- Hpx. exact (eq_sym Hbj).
        + rewrite Epj, Epi. exact Hpx. }
    rewrite <- Hv. apply nth_In. rewrite !upd_length. exact Hp'.
Qed.

Lemma shuffle_loop_spec : forall i js l l', shuffle_loop i js l = Some l' ->
  length l' = length l /\ (forall x, In x l' -> In x l) /\ (forall x, In x l -> In x l').
Proof.
  induction i as [|i IH]; intros js l l' H; simpl in H.
  - inversion H; subst. repeat split; auto.
  - destruct js as [|j js]; [discriminate|].
    destruct (j <? 0); [discriminate|].
    destruct (swap l (S i) (Z.to_nat j)) as [l1|] eqn:Es; [|discriminate].
    destruct (swap_spec _ _ _ _ Es) as [S1 [S2 S3]].
    destruct (IH _ _ _ H) as [I1 [I2 I3]].
    split; [lia|]. split; intros x Hx; auto.
Qed.

Lemma shuffle_loop_NoDup : forall i js l l', shuffle_loop i js l = Some l' -> NoDup l -> NoDup l'.
Proof.
  intros i js l l' H Hnd. destruct (shuffle_loop_spec _ _ _ _ H) as [H1 [_ H3]].
  apply (@NoDup_incl_NoDup Z l l' Hnd); [lia|]. intros x Hx. apply H3. exact Hx.
Qed.

Lemma NoDup_firstn_Z : forall (k : nat) (l : list Z), NoDup l -> NoDup (firstn k l).
Proof.
  intros k l. revert k. induction l as [|a l IH]; intros k H.
  - rewrite firstn_nil. constructor.
  - destruct k as [|k]; simpl; [constructor|].
    inversion H as [|? ? Hnin Hnd]; subst. constructor.
    + intro Hin. apply Hnin. rewrite <- (firstn_skipn k l). apply in_or_app. left. exact Hin.
    + apply IH. exact Hnd.
Qed.

Lemma iota_NoDup : forall n, NoDup (map Z.of_nat (seq 0 n)).
Proof.
  intro n. apply FinFun.Injective_map_NoDup; [|apply seq_NoDup].
  intros a b H. apply Nat2Z.inj. exact H.
Qed.

(* every stream: count, distinctness, range *)
Theorem shuffle_prefix_perm : forall n threshold js l,
  random_indices n threshold js = Some l ->
  0 <= n /\ 0 <= threshold /\
  Z.of_nat (length l) = Z.min threshold n /\
  NoDup l /\
  (forall x, In x l -> 0 <= x < n).
Proof.
  intros n threshold js l H. unfold random_indices in H.
  destruct (n <? 0) eqn:En; [discriminate|]. apply Z.ltb_ge in En.
  destruct (shuffle_loop (Z.to_nat n - 1) js (map Z.of_nat (seq 0 (Z.to_nat n)))) as [arr|] eqn:Es;
    [|discriminate].
  set (t := if n <? threshold then n else threshold) in *.
  destruct (t <? 0) eqn:Et; [discriminate|]. apply Z.ltb_ge in Et.
  inversion H; subst l; clear H.
  destruct (shuffle_loop_spec _ _ _ _ Es) as [H1 [H2 _]].
  rewrite map_length, seq_length in H1.
  assert (Ht : t = Z.min threshold n).
  { unfold t. destruct (n <? threshold) eqn:E; [apply Z.ltb_lt in E|apply Z.ltb_ge in E]; lia. }
  split; [exact En|]. split; [lia|]. split; [|split].
  - rewrite firstn_length, H1. lia.
  - apply NoDup_firstn_Z. apply (shuffle_loop_NoDup _ _ _ _ Es). apply iota_NoDup.
  - intros x Hx.
    assert (Hin : In x arr) by (rewrite <- (firstn_skipn (Z.to_nat t) arr); apply in_or_app; left; exact Hx).
    apply H2 in Hin. apply in_map_iff in Hin. destruct Hin as [p [<- Hp]].
    apply in_seq in Hp. lia.
Qed.

(* the full shuffle (threshold >= n) returns every index exactly once *)
Theorem shuffle_full_is_permutation : forall n threshold js l,
  random_indices n threshold js = Some l -> n <= threshold ->
  forall x, 0 <= x < n -> In x l.
Proof.
  intros n threshold js l H Hge x Hx. unfold random_indices in H.
  destruct (n <? 0) eqn:En; [discriminate|].
  destruct (shuffle_loop (Z.to_nat n - 1) js (map Z.of_nat (seq 0 (Z.to_nat n)))) as [arr|] eqn:Es;
    [|discriminate].
  assert (Et : (if n <? threshold then n else threshold) = n).
  { destruct (n <? threshold) eqn:E; [reflexivity|apply Z.ltb_ge in E; lia]. }
  rewrite Et in H. destruct (n <? 0); [discriminate|]. inversion H; subst l; clear H.
  destruct (shuffle_loop_spec _ _ _ _ Es) as [H1 [_ H3]].
  rewrite map_length, seq_length in H1.
  rewrite firstn_all2 by lia. apply H3.
  apply in_map_iff. exists (Z.to_nat x). split; [lia|]. apply in_seq. lia.
Qed.

(* no panic when the draws respect the generator's contract *)
Lemma shuffle_loop_total : forall i js l, draws_ok i js -> (i < length l)%nat \/ i = O ->
  exists l', shuffle_loop i js l = Some l'.
Proof.
  induction i as [|i IH]; intros js l Hd Hi; simpl.
  - exists l. reflexivity.
  - destruct js as [|j js]; simpl in Hd; [contradiction|]. destruct Hd as [Hj Hd].
    destruct Hi as [Hi|Hi]; [|discriminate].
    assert (Ej : (j <? 0) = false) by (apply Z.ltb_ge; lia). rewrite Ej.
    unfold swap.
    destruct (nth_error l (S i)) as [a|] eqn:Ea;
      [|apply nth_error_None in Ea; lia].
    destruct (nth_error l (Z.to_nat j)) as [b|] eqn:Eb;
      [|apply nth_error_None in Eb; lia].
    apply IH; [exact Hd|]. left. rewrite !upd_length. lia.
Qed.

Theorem random_indices_total : forall n threshold js,
  0 <= n -> 0 <= threshold -> draws_ok (Z.to_nat n - 1) js ->
  exists l, random_indices n threshold js = Some l.
Proof.
  intros n threshold js Hn Ht Hd. unfold random_indices.
  assert (En : (n <? 0) = false) by (apply Z.ltb_ge; lia). rewrite En.
  destruct (shuffle_loop_total (Z.to_nat n - 1) js (map Z.of_nat (seq 0 (Z.to_nat n))) Hd) as [arr Ha].
  { rewrite map_length, seq_length. lia. }
  rewrite Ha.
  assert (Et : ((if n <? threshold then n else threshold) <? 0) = false).
  { destruct (n <? threshold); apply Z.ltb_ge; lia. }
  rewrite Et. eexists. reflexivity.
Qed.
