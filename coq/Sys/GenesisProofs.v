(* C19: InitGenesis (ExportGenesis s) = s exactly when the fields genesis.go drops are empty. *)
From Coq Require Import ZArith List Bool String Lia Sorted.
Import ListNotations.
From Sunrise Require Import Sys.Genesis.
Local Open Scope Z_scope.

Lemma nth_map_seq {A} (h : nat -> A) n f d : (f < n)%nat -> nth f (map h (seq 0 n)) d = h f.
Proof.
  intros H. rewrite (nth_indep _ d (h 0%nat)) by (rewrite map_length, seq_length; exact H).
  rewrite (map_nth h (seq 0 n) 0%nat f). rewrite seq_nth by exact H. reflexivity.
Qed.

(* what must hold of field [f] for the round trip to reproduce it *)
Definition field_ok (m : modspec) (img : img_fn) (s : mstate) (f : nat) : Prop :=
  match role_of m f with
  | RParams => True
  | RCounter => field s f <> []
  | RColl => rebuild img f f (field s f) = field s f
  | RIndexOf c => rebuild img c f (field s c) = field s f
  | RLost => field s f = []
  | RDeclaredOnly => field s f = []
  end.

Lemma role_in_range m f : role_of m f <> RDeclaredOnly -> (f < nfields m)%nat.
Proof.
  unfold role_of, nfields. destruct (nth_error (m_fields m) f) eqn:E; intros H; [|congruence].
  apply nth_error_Some. congruence.
Qed.

Lemma indexes_ok_spec m f c :
  indexes_ok m = true -> (f < nfields m)%nat -> role_of m f = RIndexOf c -> role_of m c = RColl.
Proof.
  unfold indexes_ok. intros H Hf Hr. rewrite forallb_forall in H.
  specialize (H f ltac:(apply in_seq; lia)). rewrite Hr in H.
  destruct (role_of m c); try discriminate. reflexivity.
Qed.

Lemma export_some m cdef s g :
  export m cdef s = Some g -> g = map (export_field m cdef s) (seq 0 (nfields m)).
Proof. unfold export. destruct (params_present m s); intros H; inversion H. reflexivity. Qed.

Lemma field_export m cdef s f :
  (f < nfields m)%nat ->
  field (map (export_field m cdef s) (seq 0 (nfields m))) f = export_field m cdef s f.
Proof. intros H. unfold field at 1. apply nth_map_seq. exact H. Qed.

(* the generic statement, field by field *)
Theorem roundtrip_generic m img cdef s g :
  indexes_ok m = true -> List.length s = nfields m -> export m cdef s = Some g ->
  (init m img g = s <-> forall f, (f < nfields m)%nat -> field_ok m img s f).
Proof.
  intros Hidx Hlen Hex. apply export_some in Hex. subst g.
  set (g := map (export_field m cdef s) (seq 0 (nfields m))).
  assert (Hfield : forall f, (f < nfields m)%nat ->
            (init_field m img g f = field s f <-> field_ok m img s f)).
  { intros f Hf. unfold init_field, field_ok.
    destruct (role_of m f) as [| | |c| |] eqn:Er.
    - unfold g. rewrite field_export by exact Hf. unfold export_field. rewrite Er. tauto.
    - unfold g. rewrite field_export by exact Hf. unfold export_field. rewrite Er.
      destruct (field s f) as [|x tl]; split; intros H; congruence.
    - unfold g. rewrite field_export by exact Hf. unfold export_field. rewrite Er. tauto.
    - pose proof (indexes_ok_spec _ _ _ Hidx Hf Er) as Hc.
      assert (Hcn : (c < nfields m)%nat) by (apply role_in_range; rewrite Hc; discriminate).
      unfold g. rewrite field_export by exact Hcn. unfold export_field. rewrite Hc. tauto.
    - split; intros H; congruence.
    - split; intros H; congruence. }
  split.
  - intros Heq f Hf. apply Hfield; [exact Hf|].
    transitivity (field (init m img g) f); [|rewrite Heq; reflexivity].
    unfold init, field. symmetry. apply nth_map_seq. exact Hf.
  - intros Hall. apply (nth_ext _ _ [] []).
    + unfold init. rewrite map_length, seq_length. symmetry. exact Hlen.
    + intros f Hf. unfold init in *. rewrite map_length, seq_length in Hf.
      rewrite nth_map_seq by exact Hf. apply Hfield; [exact Hf|]. apply Hall. exact Hf.
Qed.

(* invariants of reachable states that the theorem assumes (decided on every observed state by
   C19Check.wf_b): exported collections and indexes are what their setters rebuild, counters
   have been written, declared-but-unused prefixes hold nothing *)
Definition wf (m : modspec) (img : img_fn) (s : mstate) : Prop :=
  forall f, (f < nfields m)%nat ->
    match role_of m f with RLost => True | _ => field_ok m img s f end.

Lemma in_lost_fields m f : In f (lost_fields m) <-> (f < nfields m)%nat /\ role_of m f = RLost.
Proof.
  unfold lost_fields. rewrite filter_In, in_seq. split.
  - intros [H1 H2]. split; [lia|]. destruct (role_of m f); try discriminate. reflexivity.
  - intros [H1 H2]. split; [lia|]. rewrite H2. reflexivity.
Qed.

Theorem roundtrip_iff m img cdef s g :
  indexes_ok m = true -> List.length s = nfields m -> wf m img s -> export m cdef s = Some g ->
  (init m img g = s <-> forall f, In f (lost_fields m) -> field s f = []).
Proof.
  intros Hidx Hlen Hwf Hex. rewrite (roundtrip_generic m img cdef s g Hidx Hlen Hex). split.
  - intros H f Hin. apply in_lost_fields in Hin. destruct Hin as [Hf Hr].
    specialize (H f Hf). unfold field_ok in H. rewrite Hr in H. exact H.
  - intros H f Hf. specialize (Hwf f Hf). unfold field_ok in *.
    destruct (role_of m f) eqn:Er; try exact Hwf.
    apply H. apply in_lost_fields. split; assumption.
Qed.

Corollary roundtrip_when_nothing_lost m img cdef s g :
  lost_fields m = [] -> indexes_ok m = true -> List.length s = nfields m -> wf m img s ->
  export m cdef s = Some g -> init m img g = s.
Proof.
  intros Hl Hidx Hlen Hwf Hex. apply (roundtrip_iff m img cdef s g Hidx Hlen Hwf Hex).
  rewrite Hl. intros f [].
Qed.

(* a witness for every lost field: a state that is well-formed, exports, and comes back
   without the entry under that field *)
Definition witness (m : modspec) (f : nat) : mstate :=
  map (fun i => if Nat.eqb i f then [(1, 1)]
                else match role_of m i with RParams => [(0, 0)] | RCounter => [(0, 0)] | _ => [] end)
      (seq 0 (nfields m)).

Lemma witness_field m f i : (i < nfields m)%nat ->
  field (witness m f) i =
  if Nat.eqb i f then [(1, 1)]
  else match role_of m i with RParams => [(0, 0)] | RCounter => [(0, 0)] | _ => [] end.
Proof. intros H. unfold field, witness. rewrite nth_map_seq by exact H. reflexivity. Qed.

Theorem refuted_if_lost m img cdef f :
  indexes_ok m = true -> In f (lost_fields m) ->
  exists s g, List.length s = nfields m /\ wf m img s /\ export m cdef s = Some g /\
              init m img g <> s /\ field s f <> [] /\ field (init m img g) f = [].
Proof.
  intros Hidx Hin. pose proof Hin as Hin'. apply in_lost_fields in Hin'. destruct Hin' as [Hf Hr].
  set (s := witness m f).
  assert (Hlen : List.length s = nfields m) by (unfold s, witness; rewrite map_length, seq_length; reflexivity).
  assert (Hwf : wf m img s).
  { intros i Hi. unfold field_ok. destruct (role_of m i) as [| | |c| |] eqn:Er; try exact I.
    - unfold s. rewrite witness_field by exact Hi. destruct (Nat.eqb_spec i f); [discriminate|]. rewrite Er. discriminate.
    - unfold s. rewrite witness_field by exact Hi. destruct (Nat.eqb_spec i f) as [->|_]; [congruence|]. rewrite Er. reflexivity.
    - pose proof (indexes_ok_spec _ _ _ Hidx Hi Er) as Hc.
      assert (Hcn : (c < nfields m)%nat) by (apply role_in_range; rewrite Hc; discriminate).
      unfold s. rewrite !witness_field by assumption.
      destruct (Nat.eqb_spec c f) as [->|_]; [congruence|]. rewrite Hc.
      destruct (Nat.eqb_spec i f) as [->|_]; [congruence|]. rewrite Er. reflexivity.
    - unfold s. rewrite witness_field by exact Hi. destruct (Nat.eqb_spec i f) as [->|_]; [congruence|]. rewrite Er. reflexivity. }
  assert (Hpp : params_present m s = true).
  { unfold params_present. apply forallb_forall. intros i Hi. apply in_seq in Hi.
    destruct (role_of m i) eqn:Er; try reflexivity.
    unfold s. rewrite witness_field by lia. destruct (Nat.eqb i f); [reflexivity|]. rewrite Er. reflexivity. }
  set (g := map (export_field m cdef s) (seq 0 (nfields m))).
  assert (Hex : export m cdef s = Some g) by (unfold export; rewrite Hpp; reflexivity).
  assert (Hsf : field s f = [(1, 1)]).
  { unfold s. rewrite witness_field by exact Hf. rewrite Nat.eqb_refl. reflexivity. }
  exists s, g. repeat split; try assumption.
  - intros Heq. pose proof (proj1 (roundtrip_iff m img cdef s g Hidx Hlen Hwf Hex) Heq f Hin) as Hc.
    congruence.
  - rewrite Hsf. discriminate.
  - unfold init, field. rewrite nth_map_seq by exact Hf. unfold init_field. rewrite Hr. reflexivity.
Qed.

(* ------------------------------------------------------------ the natural invariant behind [wf] *)
(* a collection whose setter writes each value under its own key (and otherwise only into
   other fields) is rebuilt unchanged when its keys are strictly ascending *)
Definition keys_below (s : store) (k : Z) : Prop := forall e, In e s -> fst e < k.

Lemma insert_above s k v : keys_below s k -> insert k v s = s ++ [(k, v)].
Proof.
  induction s as [|[k' v'] tl IH]; intros H; cbn [insert app]; [reflexivity|].
  assert (Hk : k' < k) by (apply (H (k', v')); left; reflexivity).
  destruct (Z.ltb_spec k k'); [lia|]. destruct (Z.eqb_spec k k'); [lia|].
  rewrite IH; [reflexivity|]. intros e He. apply H. right. exact He.
Qed.

Lemma rebuild_own img c s :
  StronglySorted (fun a e => fst a < fst e) s ->
  (forall k v, In (k, v) s -> forall acc, put_image c (img c k) acc = insert k v acc) ->
  rebuild img c c s = s.
Proof.
  intros Hs Himg. unfold rebuild.
  assert (G : forall acc, (forall a e, In a acc -> In e s -> fst a < fst e) ->
            fold_left (fun acc kv => put_image c (img c (fst kv)) acc) s acc = acc ++ s).
  { induction s as [|[k v] tl IH]; intros acc Hacc; cbn [fold_left]; [rewrite app_nil_r; reflexivity|].
    cbn [fst]. rewrite (Himg k v (or_introl eq_refl)).
    rewrite insert_above by (intros e He; apply (Hacc e (k, v) He); left; reflexivity).
    inversion Hs as [|x l Hs' Hall]; subst.
    rewrite IH.
    - rewrite <- app_assoc. reflexivity.
    - exact Hs'.
    - intros k' v' Hin. apply Himg. right. exact Hin.
    - intros a e Ha He. apply in_app_or in Ha. destruct Ha as [Ha|[<-|[]]].
      + apply Hacc; [exact Ha|right; exact He].
      + rewrite Forall_forall in Hall. apply (Hall e He). }
  rewrite G; [reflexivity|]. intros a e [].
Qed.

(* ------------------------------------------------------------ the eight modules *)
Lemma all_indexes_ok : forallb indexes_ok all_specs = true. Proof. vm_compute. reflexivity. Qed.

Lemma lost_da : lost_fields da_spec = [3; 4; 6; 7]%nat. Proof. vm_compute. reflexivity. Qed.
Lemma lost_fee : lost_fields fee_spec = []. Proof. vm_compute. reflexivity. Qed.
Lemma lost_liquidityincentive : lost_fields liquidityincentive_spec = []. Proof. vm_compute. reflexivity. Qed.
Lemma lost_liquiditypool : lost_fields liquiditypool_spec = [7]%nat. Proof. vm_compute. reflexivity. Qed.
Lemma lost_selfdelegation : lost_fields selfdelegation_spec = [1; 2]%nat. Proof. vm_compute. reflexivity. Qed.
Lemma lost_shareclass : lost_fields shareclass_spec = [1; 2; 3; 4; 5; 6; 7]%nat. Proof. vm_compute. reflexivity. Qed.
Lemma lost_swap : lost_fields swap_spec = []. Proof. vm_compute. reflexivity. Qed.
Lemma lost_tokenconverter : lost_fields tokenconverter_spec = []. Proof. vm_compute. reflexivity. Qed.

Definition roundtrips (m : modspec) : Prop :=
  forall img cdef s g, List.length s = nfields m -> wf m img s -> export m cdef s = Some g -> init m img g = s.
Definition refuted (m : modspec) (f : nat) : Prop :=
  forall img cdef, exists s g, List.length s = nfields m /\ wf m img s /\ export m cdef s = Some g /\
                    init m img g <> s /\ field s f <> [] /\ field (init m img g) f = [].

Ltac roundtrip_by L :=
  intros img cdef s g Hl Hw He; apply (roundtrip_when_nothing_lost _ img cdef s g L); try assumption; vm_compute; reflexivity.

Theorem fee_roundtrip : roundtrips fee_spec. Proof. roundtrip_by lost_fee. Qed.
Theorem tokenconverter_roundtrip : roundtrips tokenconverter_spec. Proof. roundtrip_by lost_tokenconverter. Qed.
Theorem swap_roundtrip : roundtrips swap_spec. Proof. roundtrip_by lost_swap. Qed.
Theorem liquidityincentive_roundtrip : roundtrips liquidityincentive_spec. Proof. roundtrip_by lost_liquidityincentive. Qed.

Lemma refuted_of_lost m f : indexes_ok m = true -> In f (lost_fields m) -> refuted m f.
Proof. intros Hidx Hin img cdef. apply refuted_if_lost; assumption. Qed.

Ltac refute L := apply refuted_of_lost; [vm_compute; reflexivity | rewrite L; cbn; tauto].

(* liquiditypool: tick infos *)
Theorem liquiditypool_tick_infos_refuted : refuted liquiditypool_spec 7. Proof. refute lost_liquiditypool. Qed.
(* da: challenge counter, fault counters, invalidities, proof deputies *)
Theorem da_challenge_counts_refuted : refuted da_spec 3. Proof. refute lost_da. Qed.
Theorem da_fault_counts_refuted : refuted da_spec 4. Proof. refute lost_da. Qed.
Theorem da_invalidities_refuted : refuted da_spec 6. Proof. refute lost_da. Qed.
Theorem da_proof_deputies_refuted : refuted da_spec 7. Proof. refute lost_da. Qed.
(* shareclass: everything but the params *)
Theorem shareclass_unbondings_refuted : refuted shareclass_spec 1. Proof. refute lost_shareclass. Qed.
Theorem shareclass_unbondings_by_address_refuted : refuted shareclass_spec 2. Proof. refute lost_shareclass. Qed.
Theorem shareclass_unbondings_by_time_refuted : refuted shareclass_spec 3. Proof. refute lost_shareclass. Qed.
Theorem shareclass_unbonding_id_refuted : refuted shareclass_spec 4. Proof. refute lost_shareclass. Qed.
Theorem shareclass_reward_multiplier_refuted : refuted shareclass_spec 5. Proof. refute lost_shareclass. Qed.
Theorem shareclass_users_last_reward_multiplier_refuted : refuted shareclass_spec 6. Proof. refute lost_shareclass. Qed.
Theorem shareclass_last_reward_handling_time_refuted : refuted shareclass_spec 7. Proof. refute lost_shareclass. Qed.
(* selfdelegation: lockup registry, proxies *)
Theorem selfdelegation_lockup_accounts_refuted : refuted selfdelegation_spec 1. Proof. refute lost_selfdelegation. Qed.
Theorem selfdelegation_proxies_refuted : refuted selfdelegation_spec 2. Proof. refute lost_selfdelegation. Qed.

(* every field of every module is either reproduced (on well-formed states) or has a witness *)
Theorem every_field_decided : forall m, In m all_specs -> forall f, (f < nfields m)%nat ->
  (forall img cdef s g, List.length s = nfields m -> wf m img s -> export m cdef s = Some g ->
     (forall f', In f' (lost_fields m) -> field s f' = []) -> field (init m img g) f = field s f) /\
  (In f (lost_fields m) -> refuted m f).
Proof.
  intros m Hm f Hf.
  assert (Hidx : indexes_ok m = true).
  { pose proof all_indexes_ok as H. rewrite forallb_forall in H. apply H. exact Hm. }
  split.
  - intros img cdef s g Hl Hw He Hlost.
    rewrite (proj2 (roundtrip_iff m img cdef s g Hidx Hl Hw He) Hlost). reflexivity.
  - intros Hin. apply refuted_of_lost; assumption.
Qed.

(* the property as stated - every module reproduces every well-formed state - fails *)
Theorem full_refuted : ~ (forall m, In m all_specs -> roundtrips m).
Proof.
  intros H. specialize (H liquiditypool_spec ltac:(cbn; tauto)).
  destruct (liquiditypool_tick_infos_refuted (fun _ _ => []) (fun _ => (0, 0))) as [s [g [Hl [Hw [He [Hne _]]]]]].
  apply Hne. apply (H _ _ s g Hl Hw He).
Qed.

(* boolean form of [wf], used by the non-vacuity example and the check module *)
Fixpoint st_eqb (a c : store) : bool :=
  match a, c with
  | [], [] => true
  | (k, v) :: a', (k', v') :: c' => (k =? k') && (v =? v') && st_eqb a' c'
  | _, _ => false
  end.
Definition wf_holds (m : modspec) (img : img_fn) (s : mstate) : bool :=
  forallb (fun f => match role_of m f with
                    | RParams => true
                    | RCounter => match field s f with [] => false | _ => true end
                    | RColl => st_eqb (rebuild img f f (field s f)) (field s f)
                    | RIndexOf c => st_eqb (rebuild img c f (field s c)) (field s f)
                    | RLost => true
                    | RDeclaredOnly => match field s f with [] => true | _ => false end
                    end) (seq 0 (nfields m)).
Lemma st_eqb_eq a c : st_eqb a c = true -> a = c.
Proof.
  revert c. induction a as [|[k v] a IH]; intros [|[k' v'] c]; cbn; intros H; try discriminate; [reflexivity|].
  apply andb_true_iff in H. destruct H as [H H3]. apply andb_true_iff in H. destruct H as [H1 H2].
  apply Z.eqb_eq in H1. apply Z.eqb_eq in H2. subst. rewrite (IH c H3). reflexivity.
Qed.
Lemma wf_holds_sound m img s : wf_holds m img s = true -> wf m img s.
Proof.
  unfold wf_holds, wf. rewrite forallb_forall. intros H f Hf.
  specialize (H f ltac:(apply in_seq; lia)). unfold field_ok.
  destruct (role_of m f); try exact I.
  - destruct (field s f); [discriminate|]. discriminate.
  - apply st_eqb_eq. exact H.
  - apply st_eqb_eq. exact H.
  - destruct (field s f); [reflexivity|discriminate].
Qed.
