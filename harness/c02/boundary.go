package c02

// Boundary relation between the pool's current tick and the bounds of positions: current tick equal
// to a position's upper tick, upper-1, lower tick, lower-1, with the price strictly inside that
// one-tick bucket.  "In range" is lower <= tick < upper for the bookkeeping, the swap loop and the
// amount calculation alike; an off-by-one in any of them pays a withdrawing provider with the wrong
// formula.  Swaps are sized by bisection on discarded contexts so that they END inside the bucket.

import (
	"fmt"
	"math/big"

	sdk "github.com/cosmos/cosmos-sdk/types"

	lptypes "github.com/sunriselayer/sunrise/x/liquiditypool/types"

	"verifharness/amm"
)

// tickAfter: the pool's tick after a swap of amt (exact in: amt of the input denom; exact out: amt of
// the output denom), in a discarded context; ok = swap succeeded.
func (r *runner) tickAfter(ctx sdk.Context, p amm.PoolInfo, exactIn bool, denomIn int, amt *big.Int) (int64, bool) {
	c, _ := ctx.CacheContext()
	if _, err := r.w.Exec(c, p, swapOp(3, exactIn, denomIn, amt, "")); err != nil {
		return 0, false
	}
	return r.curTick(c, p), true
}

// swapIntoBucket commits an exact-in swap after which the current tick is `target` (price inside
// [target, target+1)); false if no such amount was found.
func (r *runner) swapIntoBucket(ctx sdk.Context, p amm.PoolInfo, target int64, tag string) bool {
	return r.swapToBucket(ctx, p, target, true, tag)
}

// swapToBucket: the same with an exact-in or an exact-out swap.
func (r *runner) swapToBucket(ctx sdk.Context, p amm.PoolInfo, target int64, exactIn bool, tag string) bool {
	cur := r.curTick(ctx, p)
	if cur == target {
		return true
	}
	down := target < cur
	denomIn := 1
	if down {
		denomIn = 0
	}
	beyond := func(t int64) bool { // at or past the target, seen from the start
		if down {
			return t <= target
		}
		return t >= target
	}
	lo, hi := big.NewInt(0), big.NewInt(1000)
	found := false
	for i := 0; i < 120; i++ {
		t, ok := r.tickAfter(ctx, p, exactIn, denomIn, hi)
		if !ok {
			// more than the pool can fill: the target lies between the last amount that worked and this one
			found = lo.Sign() > 0
			break
		}
		if beyond(t) {
			found = true
			break
		}
		lo.Set(hi)
		hi.Mul(hi, big.NewInt(2))
	}
	if !found {
		// no amount gets there: keep the attempt as an observed step (the model decides whether it should
		// have worked) and let the caller go on
		r.st.Count("swap-into-bucket:unreachable")
		r.commit(ctx, p, swapOp(3, exactIn, denomIn, new(big.Int).Set(hi), tag+":bucket-not-reached"))
		return false
	}
	for i := 0; i < 200; i++ {
		if t, ok := r.tickAfter(ctx, p, exactIn, denomIn, hi); ok && t == target {
			r.commit(ctx, p, swapOp(3, exactIn, denomIn, new(big.Int).Set(hi), tag))
			pool, _, _ := r.w.K.GetPool(ctx, p.ID)
			r.st.Count("swap-into-bucket:landed")
			r.st.Nontriv(fmt.Sprintf("bucket/%d/%d/%s", p.ID, target, pool.CurrentSqrtPrice))
			return r.curTick(ctx, p) == target
		}
		mid := new(big.Int).Add(lo, hi)
		mid.Rsh(mid, 1)
		if mid.Cmp(lo) == 0 {
			break
		}
		t, ok := r.tickAfter(ctx, p, exactIn, denomIn, mid)
		switch {
		case ok && t == target:
			hi.Set(mid)
		case ok && !beyond(t):
			lo.Set(mid)
		default: // past the target (or failing): too much
			hi.Set(mid)
		}
	}
	r.st.Count("swap-into-bucket:not-found")
	r.commit(ctx, p, swapOp(3, exactIn, denomIn, new(big.Int).Set(hi), tag+":bucket-not-found"))
	return false
}

func (r *runner) findPos(ctx sdk.Context, p amm.PoolInfo, lo, up int64) (lptypes.Position, bool) {
	for _, q := range r.w.C02Positions(ctx, p) {
		if q.LowerTick == lo && q.UpperTick == up {
			return q, true
		}
	}
	return lptypes.Position{}, false
}

func (r *runner) decreasePart(ctx sdk.Context, p amm.PoolInfo, q lptypes.Position, div int64, tag string) {
	l := amm.C02Raw(q.Liquidity)
	r.commit(ctx, p, amm.Op{Kind: "decrease", Sender: r.ownerIndex(q.Address), Pid: q.Id, Liq: l.Div(l, big.NewInt(div)), Tag: tag})
}

// scenarioBoundary: the price is parked inside the buckets at A's upper tick, upper-1, lower tick and
// lower-1; positions bounded by that tick are reduced, increased and created there; everybody exits, in
// two orders, while the current tick equals A's upper tick and again while it equals A's lower tick.
func (r *runner) scenarioBoundary(ctx sdk.Context, maxOrders int) error {
	p, err := r.w.CreatePool("uusdc", "urise", "0.003", "1.0001", "0")
	if err != nil {
		return err
	}
	r.commit(ctx, p, create(0, -300, 300, bi("10000000"), bi("10000000"), "boundary/wide"))
	r.commit(ctx, p, create(1, -80, 40, bi("3000000"), bi("3000000"), "boundary/A"))
	r.commit(ctx, p, create(2, 40, 120, bi("2000000"), bi("0"), "boundary/B-lower-is-A-upper"))
	r.commit(ctx, p, create(2, -160, -80, bi("0"), bi("2000000"), "boundary/C-upper-is-A-lower"))
	for _, target := range []int64{40, 39, -80, -81} {
		if !r.swapIntoBucket(ctx, p, target, fmt.Sprintf("boundary/swap-into-bucket-%d", target)) {
			r.st.Count("scenario-step-skipped:boundary")
			continue
		}
		tag := fmt.Sprintf("boundary/at-%d/", target)
		if a, ok := r.findPos(ctx, p, -80, 40); ok {
			r.decreasePart(ctx, p, a, 5, tag+"decrease-part-A")
		}
		if target > 0 {
			if b, ok := r.findPos(ctx, p, 40, 120); ok {
				r.decreasePart(ctx, p, b, 5, tag+"decrease-part-B")
			}
		} else if c, ok := r.findPos(ctx, p, -160, -80); ok {
			r.decreasePart(ctx, p, c, 5, tag+"decrease-part-C")
		}
		if target == 40 || target == -80 {
			// new positions bounded by the current tick, an increase of A, and everybody's exit from here
			r.commit(ctx, p, create(1, target-30, target, bi("400000"), bi("400000"), tag+"create-upper-on-current"))
			r.commit(ctx, p, create(2, target, target+30, bi("400000"), bi("400000"), tag+"create-lower-on-current"))
			if a, ok := r.findPos(ctx, p, -80, 40); ok {
				r.commit(ctx, p, amm.Op{Kind: "increase", Sender: 1, Pid: a.Id, Base: bi("1000"), Quote: bi("1000"), MinBase: bi("0"), MinQuote: bi("0"), Tag: tag + "increase-A"})
			}
			r.drainPool(ctx, p, 3, maxOrders, fmt.Sprintf("boundary-at-%d", target))
		}
	}
	return nil
}

// boundaryGenerated: park the price in a bucket adjacent to a bound of a random position, then act on it.
func (r *runner) boundaryGenerated(ctx sdk.Context, p amm.PoolInfo) bool {
	poss := r.w.C02Positions(ctx, p)
	if len(poss) == 0 {
		return false
	}
	q := poss[r.w.R.Intn(len(poss))]
	target := []int64{q.UpperTick, q.UpperTick - 1, q.LowerTick, q.LowerTick - 1}[r.w.R.Intn(4)]
	if !r.swapIntoBucket(ctx, p, target, fmt.Sprintf("swap-into-bucket/%d", target)) {
		return false
	}
	owner := r.ownerIndex(q.Address)
	switch r.w.R.Intn(4) {
	case 0:
		r.decreasePart(ctx, p, q, int64(2+r.w.R.Intn(4)), "at-bound/decrease-part")
	case 1:
		r.commit(ctx, p, amm.Op{Kind: "decrease", Sender: owner, Pid: q.Id, Liq: amm.C02Raw(q.Liquidity), Tag: "at-bound/decrease-all"})
	case 2:
		r.commit(ctx, p, amm.Op{Kind: "increase", Sender: owner, Pid: q.Id, Base: r.w.R.LogUniform(12), Quote: r.w.R.LogUniform(12), MinBase: bi("0"), MinQuote: bi("0"), Tag: "at-bound/increase"})
	default:
		b := int64(1 + r.w.R.Intn(int(p.C02Span())))
		r.commit(ctx, p, create(r.w.R.Intn(3), target-b, target, r.w.R.LogUniform(14), r.w.R.LogUniform(14), "at-bound/create-upper-on-current"))
	}
	return true
}
