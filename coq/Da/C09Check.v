(* Correspondence + monitors for C09.  A case is one whole DA end blocker of the running
   application (tally of the due items, then the epoch-end slashing when the height is a
   multiple of the epoch), or one order/grouping experiment.  Evaluated by generated
   cases files with vm_compute. *)
From Coq Require Import ZArith List Bool.
Import ListNotations.
From Sunrise Require Export Base.Outcome Base.Dec Base.Check Da.Tally.
Local Open Scope Z_scope.

Record block_pre := {
  bp_rf : Z;                        (* params.ReplicationFactor, raw 10^-18 *)
  bp_sft : Z;                       (* params.SlashFaultThreshold, raw *)
  bp_epoch : bool;                  (* height mod SlashEpoch = 0 *)
  bp_active : list Z;               (* bonded validators, power-index order *)
  bp_ids : list Z;                  (* every operator the harness knows (validators, ex-validators, strangers) *)
  bp_items : list item;             (* due Challenging items in index-walk order; [it_proofs] = the proofs in
                                       force by the harness's ghost state: (validator the accepted
                                       submission was FOR, its indices), the latest per validator *)
  bp_thr : list (option Z);         (* the keeper's GetZkpThreshold per item; None = it panicked *)
  bp_gthr : list (option Z);        (* ghost: the protocol rule ceil(rf * shards / #bonded) clamped to 1..shards,
                                       computed by the harness from x/staking's bonded set; [it_asg] is the real
                                       ShardIndicesForValidator at THIS threshold; None = nobody bonded *)
  bp_stored : list (list proof);    (* per item: the records as stored, Sender address as harness id *)
  bp_fc : list (Z * Z);             (* fault counters of bp_ids *)
  bp_cc : Z;                        (* challenge counter *)
  bp_vinfo : list (Z * vinfo) }.    (* staking flags of bp_ids *)

Record block_obs := {
  bo_panic : bool;
  bo_status : list Z;               (* per due item: 1 challenging, 2 verified, 3 rejected, 0 gone *)
  bo_left : list Z;                 (* per due item: proof + invalidity records still stored *)
  bo_fc : list (Z * Z);
  bo_cc : Z;
  bo_slash_ev : list Z;             (* operators of the slashing keeper's Slash events *)
  bo_jail_ev : list Z;              (* operators of its Jail events *)
  bo_jailed : list Z;               (* operators with the jailed flag set afterwards *)
  bo_tokdec : list Z;               (* operators whose tokens went down *)
  bo_others_ok : bool }.            (* Challenging items that were not due are untouched *)

Inductive c09_case :=
| CBlock (p : block_pre) (o : block_obs)
| COrder (finals : list (list Z))   (* per schedule: counters of all operators, challenge counter, verdict per logical item *)
| CSubmit (n : Z) (indices : list Z) (accepted : bool)   (* one MsgSubmitValidityProof on an item with n shards *)
| CQuery (qthr gthr : option Z) (idx : list (list Z * list Z)).
    (* Query/ZkpProofThreshold and the ghost threshold; per bonded validator the answer of
       Query/ValidatorShardIndices and the real shuffle at the ghost threshold *)

Definition lookup (l : list (Z * Z)) (k : Z) : Z :=
  match find (fun e => fst e =? k) l with Some e => snd e | None => 0 end.
Definition no_val := {| vi_exists := false; vi_jailed := false; vi_bonded := false |}.
Definition info_of (l : list (Z * vinfo)) (k : Z) : vinfo :=
  match find (fun e => fst e =? k) l with Some e => snd e | None => no_val end.

Definition st_of (p : block_pre) : tstate := {| ts_fc := lookup (bp_fc p); ts_cc := bp_cc p |}.

Definition vcode (v : verdict) : Z := match v with Verified => 2 | Rejected => 3 end.
(* an item the tally skipped (no bonded validator) is still Challenging *)
Definition ocode (v : option verdict) : Z := match v with Some x => vcode x | None => 1 end.
Definition no_active (p : list Z) : bool := match p with [] => true | _ :: _ => false end.

Definition same_set (a b : list Z) : bool :=
  (Nat.eqb (length a) (length b)) && forallb (fun x => memz x b) a && forallb (fun x => memz x a) b.

Fixpoint nodupb (l : list Z) : bool :=
  match l with [] => true | x :: tl => negb (memz x tl) && nodupb tl end.

(* the stored records are exactly the proofs in force: one record per validator, filed under the
   validator's own account address (same id), with the indices of its latest accepted submission *)
Definition proof_eqb (a b : proof) : bool :=
  (pf_sender a =? pf_sender b) && zlist_eqb (pf_indices a) (pf_indices b).
Definition same_records (a b : list proof) : bool :=
  (Nat.eqb (length a) (length b)) &&
  forallb (fun x => existsb (proof_eqb x) b) a && forallb (fun x => existsb (proof_eqb x) a) b.
Fixpoint stored_ok (its : list item) (st : list (list proof)) : bool :=
  match its, st with
  | [], [] => true
  | it :: tl, s :: tl' => same_records (it_proofs it) s && stored_ok tl tl'
  | _, _ => false
  end.

Definition opt_eqb (a b : option Z) : bool :=
  match a, b with Some x, Some y => x =? y | None, None => true | _, _ => false end.

Fixpoint thr_ok (rf nact : Z) (its : list item) (obs : list (option Z)) : bool :=
  match its, obs with
  | [], [] => true
  | it :: tl, o :: tl' => opt_eqb (zkp_threshold rf (it_n it) nact) o && thr_ok rf nact tl tl'
  | _, _ => false
  end.

Definition jailed_pre (p : block_pre) : list Z :=
  filter (fun v => vi_jailed (info_of (bp_vinfo p) v)) (bp_ids p).

(* the model of the end blocker run on the dumped pre-state *)
Definition predict (fx : fixes) (p : block_pre) :=
  end_block fx (bp_rf p) (bp_sft p) (bp_epoch p) (bp_active p) (info_of (bp_vinfo p)) (bp_ids p)
            (bp_items p) (st_of p).

Definition block_corr_with (fx : fixes) (p : block_pre) (o : block_obs) : bool :=
  nodupb (bp_ids p) &&
  (thr_ok (bp_rf p) (Z.of_nat (length (bp_active p))) (bp_items p) (bp_thr p) &&
   (* the harness's ghost threshold is the model's (its arithmetic is recomputed here) *)
   thr_ok (bp_rf p) (Z.of_nat (length (bp_active p))) (bp_items p) (bp_gthr p) &&
   stored_ok (bp_items p) (bp_stored p)) &&
  match predict fx p with
  | None => bo_panic o
  | Some (st', vs, sl) =>
      negb (bo_panic o) &&
      zlist_eqb (map ocode vs) (bo_status o) &&
      (* every tallied item's proof and invalidity records are gone *)
      forallb (fun '(v, l) => match v with Some _ => l =? 0 | None => true end) (combine vs (bo_left o)) &&
      forallb (fun v => ts_fc st' v =? lookup (bo_fc o) v) (bp_ids p) &&
      (ts_cc st' =? bo_cc o) &&
      same_set sl (bo_slash_ev o) && same_set sl (bo_jail_ev o) &&
      forallb (fun v => Bool.eqb (memz v (bo_jailed o)) (memz v (jailed_pre p) || memz v sl)) (bp_ids p) &&
      forallb (fun v => memz v sl) (bo_tokdec o) &&
      bo_others_ok o
  end.

Definition block_corr := block_corr_with all_fixed.

(* ---------------------------------------------------------------- monitors: the property
   statement evaluated on the implementation's own observed values.  They speak about
   stored records the message handlers can produce ([item_wf]); on other states only the
   correspondence is checked. *)

Definition all_wf (p : block_pre) : bool := forallb item_wf (bp_items p).

Definition is_some {A} (x : option A) : bool := match x with Some _ => true | None => false end.

(* the reference computation is defined on this block: stored records are well-formed, both
   decimal thresholds of every item are computable (no decimal overflow) or nobody is bonded
   (then nothing is tallied), and the slashing threshold is computable when the epoch ends *)
Definition spec_defined (p : block_pre) : bool :=
  all_wf p &&
  (no_active (bp_active p) ||
   forallb (fun it => is_some (zkp_threshold (bp_rf p) (it_n it) (Z.of_nat (length (bp_active p)))) &&
                      is_some (safe_thr (bp_rf p) (it_n it) (it_parity it))) (bp_items p)) &&
  (if bp_epoch p
   then is_some (slash_threshold (bp_sft p) (bp_cc p + Z.of_nat (length (tallied (bp_active p) (bp_items p)))))
   else true).

(* 1: an item is rejected exactly when (#shards proven by enough distinct validators) + parity < #shards.
      A block that dies although the reference is defined and there was something to tally or an
      epoch to end delivers no verdict at all. *)
Definition mon_verdict (p : block_pre) (o : block_obs) : bool :=
  if bo_panic o then
    negb (spec_defined p) || ((Nat.eqb (length (bp_items p)) 0) && negb (bp_epoch p))
  else
  (Nat.eqb (length (bo_status o)) (length (bp_items p))) &&
  (* without a bonded validator the tally has nothing to decide with: no demand *)
  (no_active (bp_active p) ||
   forallb (fun '(it, s) => if item_wf it then s =? vcode (verdict_spec (bp_rf p) it) else true)
           (combine (bp_items p) (bo_status o))).

Definition faults_of (p : block_pre) (v : Z) : Z := faults_in (bp_rf p) (bp_active p) (bp_items p) v.

(* 2: a counter rises by one per item on which the validator is at fault, by nothing else *)
Definition mon_faults (p : block_pre) (o : block_obs) : bool :=
  if bo_panic o || bp_epoch p || negb (all_wf p) then true else
  forallb (fun v => lookup (bo_fc o) v =? lookup (bp_fc p) v + faults_of p v) (bp_ids p).

(* the counters as the property says they stand when the epoch ends *)
Definition mid_state (p : block_pre) : tstate := mid_of (bp_rf p) (bp_active p) (bp_items p) (st_of p).

(* 3: at epoch end exactly the bonded validators whose faults exceed the threshold share are
      slashed and jailed, and the counters are reset *)
Definition mon_slash (p : block_pre) (o : block_obs) : bool :=
  if bo_panic o || negb (all_wf p) then true else
  if negb (bp_epoch p) then
    (* no epoch end: nobody is slashed or jailed by this module *)
    same_set [] (bo_slash_ev o) && same_set [] (bo_jail_ev o)
  else
    match slash_threshold (bp_sft p) (ts_cc (mid_state p)) with
    | None => true
    | Some _ =>
        let want := filter (slashed_spec (bp_sft p) (info_of (bp_vinfo p)) (mid_state p)) (bp_ids p) in
        same_set want (bo_slash_ev o) && same_set want (bo_jail_ev o) &&
        forallb (fun v => Bool.eqb (memz v (bo_jailed o)) (memz v (jailed_pre p) || memz v want)) (bp_ids p) &&
        forallb (fun v => memz v want) (bo_tokdec o) &&
        forallb (fun v => lookup (bo_fc o) v =? 0) (bp_ids p) && (bo_cc o =? 0)
    end.

(* 4: counters and verdicts do not depend on the order or grouping in which items are tallied *)
Definition mon_order (finals : list (list Z)) : bool :=
  match finals with
  | [] => true
  | f :: tl => forallb (zlist_eqb f) tl
  end.

(* 5: the handler stores only shard numbers 0..n-1 (the hypothesis [item_wf] of monitors 1-3) *)
Definition mon_submit (n : Z) (indices : list Z) (accepted : bool) : bool :=
  if accepted then forallb (fun i => (0 <=? i) && (i <? n)) indices else true.

(* 6: the number of shards a validator must prove is the protocol rule over the BONDED validators:
      the threshold the tally uses, the one Query/ZkpProofThreshold answers and the indices
      Query/ValidatorShardIndices answers all agree with it *)
Fixpoint opts_eqb (a b : list (option Z)) : bool :=
  match a, b with
  | [], [] => true
  | x :: a', y :: b' => opt_eqb x y && opts_eqb a' b'
  | _, _ => false
  end.
Definition mon_threshold (p : block_pre) : bool := opts_eqb (bp_thr p) (bp_gthr p).
Definition mon_query (qthr gthr : option Z) (idx : list (list Z * list Z)) : bool :=
  (* the assignment is a set: the order of the answer is not part of the rule *)
  opt_eqb qthr gthr && forallb (fun '(q, g) => same_set q g) idx.

Definition c09_check (c : c09_case) : list Z :=
  match c with
  | CBlock p o =>
      flag 0 (block_corr p o) ++ flag 1 (mon_verdict p o) ++ flag 2 (mon_faults p o) ++ flag 3 (mon_slash p o) ++
      flag 6 (mon_threshold p)
  | COrder f => flag 4 (mon_order f)
  | CSubmit n idx acc => flag 5 (mon_submit n idx acc)
  | CQuery q g idx => flag 6 (mon_query q g idx)
  end.

Definition run := run_cases c09_check.

(* the same check against the model of the code as it was found (diagnosis only) *)
Definition c09_check_as_found (c : c09_case) : list Z :=
  match c with
  | CBlock p o => flag 0 (block_corr_with as_found p o)
  | COrder f => []
  | CSubmit _ _ _ => []
  | CQuery _ _ _ => []
  end.
Definition run_as_found := run_cases c09_check_as_found.
